/* C01-api: pixman_image_composite32 through the real library (general + C fast
 * paths + noop; implementation chosen lazily by the real
 * _pixman_choose_implementation), 1xN a8r8g8b8 images, all pixels symbolic.
 * -DOP -DMODE(0 none,1 unified a8r8g8b8 mask,2 component alpha) -DW=width   */
#include "vp.h"
#include <config.h>
#include "pixman-private.h"
#include "pd.h"
#ifndef W
#define W 1
#endif
#ifndef SRC_FMT
#define SRC_FMT PIXMAN_a8r8g8b8
#endif
#ifndef DST_FMT
#define DST_FMT PIXMAN_a8r8g8b8
#endif

void harness (void)
{
    uint32_t sbuf[W], mbuf[W], dbuf[W], d0[W];
    int i;
    for (i = 0; i < W; i++)
    {
	VP_SYM_IDX (sbuf, i); VP_SYM_IDX (mbuf, i); VP_SYM_IDX (d0, i);
	dbuf[i] = d0[i];
    }
    pixman_image_t *src = pixman_image_create_bits (SRC_FMT, W, 1, sbuf, W * 4);
    pixman_image_t *dst = pixman_image_create_bits (DST_FMT, W, 1, dbuf, W * 4);
    pixman_image_t *msk = NULL;
    VP_ASSUME (src && dst);
#if MODE
    msk = pixman_image_create_bits (PIXMAN_a8r8g8b8, W, 1, mbuf, W * 4);
    VP_ASSUME (msk != NULL);
#if MODE == 2
    pixman_image_set_component_alpha (msk, 1);
#endif
#endif
    pixman_image_composite32 (OP, src, msk, dst, 0, 0, 0, 0, 0, 0, W, 1);
    for (i = 0; i < W; i++)
    {
	uint32_t s = sbuf[i], d = d0[i];
	if (SRC_FMT == PIXMAN_x8r8g8b8) s |= 0xff000000u;
	if (DST_FMT == PIXMAN_x8r8g8b8) d |= 0xff000000u;
	uint32_t mask_keep = (DST_FMT == PIXMAN_x8r8g8b8) ? 0x00ffffffu : 0xffffffffu;
	uint32_t want = o_pack (o_pd_channel (OP, MODE, s, mbuf[i], d, 3), o_pd_channel (OP, MODE, s, mbuf[i], d, 2),
				o_pd_channel (OP, MODE, s, mbuf[i], d, 1), o_pd_channel (OP, MODE, s, mbuf[i], d, 0));
	VP_ASSERT (((dbuf[i] ^ want) & mask_keep & 0x000000ffu) == 0, "blue == oracle");
	VP_ASSERT (((dbuf[i] ^ want) & mask_keep & 0x0000ff00u) == 0, "green == oracle");
	VP_ASSERT (((dbuf[i] ^ want) & mask_keep & 0x00ff0000u) == 0, "red == oracle");
	VP_ASSERT (((dbuf[i] ^ want) & mask_keep & 0xff000000u) == 0, "alpha == oracle");
    }
    VP_END ();
}
#ifdef VP_REPLAY
int main (void) { harness (); return 0; }
#endif
