from vp.core import Inst, API_UNWINDSET

LEVEL = "model_checking"
PD_OPS = {"CLEAR": 0, "SRC": 1, "DST": 2, "OVER": 3, "OVER_REVERSE": 4, "IN": 5, "IN_REVERSE": 6, "OUT": 7,
          "OUT_REVERSE": 8, "ATOP": 9, "ATOP_REVERSE": 10, "XOR": 11, "ADD": 12}
BLEND_OPS = {"MULTIPLY": 0x30, "SCREEN": 0x31, "OVERLAY": 0x32, "DARKEN": 0x33, "LIGHTEN": 0x34,
             "HARD_LIGHT": 0x37, "DIFFERENCE": 0x39, "EXCLUSION": 0x3a}
MODES = {0: "nomask", 1: "unified", 2: "ca"}


def instances(tier):
    L = []
    for m in range(10):
        L.append(Inst("k8-lemma-macro%d" % m, "C01/lemma_macros.c", {"MACRO": m}, link=[], unwind=2,
                      desc={"layer": "lemma: combine32.h macro == per-channel spec, all arguments"}))
    for name, op in PD_OPS.items():
        for mode in (0, 1, 2):
            if name == "DST" and mode == 2:
                continue
            L.append(Inst("k8-split-%s-%s" % (name, MODES[mode]), "C01/k8.c",
                          {"OP": op, "MODE": mode, "WIDTH": 2, "VP_SPLIT": None, "VP_UF": None},
                          link=[], unwind=4, checks=["--bounds-check", "--pointer-check"],
                          shadow={"unit": "pixman-combine32.c", "header": "pixman-combine32.h", "shim": "C01/rebind.h"},
                          desc={"layer": "combiner vs Porter-Duff oracle, macros rebound to proven specs (UF)"}))
    grid = (0, 128, 255) if tier == "quick" else (0, 1, 64, 127, 128, 254, 255)
    mgrid = ((128, 255),) if tier == "quick" else ((128, 255), (255, 128), (128, 128), (255, 255), (1, 254))
    masks = {1: ("0x80000000u",) if tier == "quick" else ("0x80000000u", "0x01000000u", "0xfe000000u"),
             2: ("0x40c080ffu",) if tier == "quick" else ("0x40c080ffu", "0xff0180feu", "0x80808080u")}
    for name, op in BLEND_OPS.items():
        hard = name in ("MULTIPLY", "DARKEN", "LIGHTEN")
        kw = dict(link=[], unwind=4, timeout=900)
        base = {"OP": op, "MODE": 0, "WIDTH": 1, "VP_REL": None}
        if not hard:
            L.append(Inst("k8-blend-%s-nomask" % name, "C01/k8.c", base, **kw,
                          desc={"layer": "integer PDF blend combiner vs exact real-valued formula; all pixel values symbolic"}))
        else:
            for sa in grid:
                for da in grid:
                    dd = dict(base); dd.update({"SA_FIX": sa, "DA_FIX": da})
                    L.append(Inst("k8-blend-%s-nomask-sa%d-da%d" % (name, sa, da), "C01/k8.c", dd, **kw,
                                  desc={"layer": "integer PDF blend combiner vs exact formula; alphas concrete (grid), colours symbolic"}))
        for mode in (1, 2):
            for mk in masks[mode]:
                for sa, da in mgrid:
                    dd = dict(base); dd.update({"MODE": mode, "MASK_FIX": mk, "SA_FIX": sa, "DA_FIX": da})
                    L.append(Inst("k8-blend-%s-%s-m%s-sa%d-da%d" % (name, MODES[mode], mk[2:10], sa, da), "C01/k8.c", dd, **kw,
                                  desc={"layer": "masked integer PDF blend combiner vs exact formula; mask and alphas concrete, colours symbolic"}))
    # float pipeline: mask law (masked combine == unmasked combine of the pre-masked source)
    FLOAT_OPS = {"OVER": 0x03, "ADD": 0x0c, "SATURATE": 0x0d, "DISJOINT_OVER": 0x13, "CONJOINT_XOR": 0x2b, "MULTIPLY": 0x30, "SCREEN": 0x31,
                 "COLOR_DODGE": 0x35, "DIFFERENCE": 0x39, "HSL_HUE": 0x3b, "HSL_SATURATION": 0x3c, "HSL_COLOR": 0x3d, "HSL_LUMINOSITY": 0x3e}
    fq = ("OVER", "ADD", "MULTIPLY", "HSL_HUE", "HSL_SATURATION", "HSL_COLOR", "HSL_LUMINOSITY")
    for name, op in FLOAT_OPS.items():
        for col in ((0,) if tier == "quick" else (0, 1, 2)):
            if tier == "quick" and name not in fq:
                continue
            if name.startswith("HSL") and col:
                continue        # HSL with colour sets 1, 2: 500-900 s each; colour set 0 is checked at both tiers
            L.append(Inst("kf-masklaw-%s-col%d" % (name, col), "C01/kf_mask.c", {"OP": op, "COLFIX": col}, link=[], unwind=6, timeout=1800,
                          models=("env_stubs.c", "libm_stubs.c"),
                          desc={"layer": "float combiner: combining through a mask == combining the pre-masked source, bit-identical; mask alpha symbolic, colours from a menu"}))
    # float pipeline: value within one 8-bit step of the exact rational Render/PDF value (alphas concrete, colours symbolic)
    KFV_OPS = [0x00, 0x01, 0x02, 0x03, 0x04, 0x05, 0x06, 0x07, 0x08, 0x09, 0x0a, 0x0b, 0x0c] + list(range(0x10, 0x1c)) + list(range(0x20, 0x2c))
    KFV_BLEND = [0x30, 0x31, 0x32, 0x33, 0x34, 0x37, 0x39, 0x3a]
    agrid = ((64, 192),) if tier == "quick" else ((64, 192), (128, 255), (255, 128), (255, 255), (1, 254), (0, 255), (255, 0), (0, 0), (200, 100))
    for op in KFV_OPS + (KFV_BLEND if tier == "thorough" else [0x30, 0x32]):
        for sa, da in (agrid[:4] if op >= 0x30 else agrid):
            L.append(Inst("kf-value-op%02x-sa%d-da%d" % (op, sa, da), "C01/kf_value.c", {"OP": op, "SA": sa, "DA": da}, link=[], unwind=6, timeout=900,
                          models=("env_stubs.c", "libm_stubs.c"),
                          desc={"layer": "float combiner (expand -> combine -> contract) within one 8-bit step of the exact Render/PDF value; alphas concrete, colours symbolic"}))
    # API layer: pixman_image_composite32 on 1x2 images vs the Porter-Duff oracle
    for name, mode, sf, df in (("OVER", 0, "a8r8g8b8", "a8r8g8b8"), ("IN_REVERSE", 0, "x8r8g8b8", "a8r8g8b8"), ("ATOP", 0, "a8r8g8b8", "x8r8g8b8"), ("ADD", 1, "a8r8g8b8", "a8r8g8b8")):
        L.append(Inst("api-%s-%s-%s-%s" % (name, MODES[mode], sf, df), "C01/api.c",
                      {"OP": PD_OPS[name], "MODE": mode, "W": 2, "SRC_FMT": "PIXMAN_" + sf, "DST_FMT": "PIXMAN_" + df, "VP_REL": None},
                      unwind=12, unwindset=API_UNWINDSET, objbits=12, timeout=900,
                      desc={"layer": "pixman_image_composite32 (fetch, combine, store through the real library) vs the Porter-Duff oracle; all pixels symbolic"}))
    return L

TEXT = ("Bounded model checking of the real combiner code: every 8-bit Porter-Duff/ADD combiner of pixman-combine32.c "
        "(unmasked, unified and component-alpha mask) equals the per-channel Render equation (each product rounded to nearest, "
        "saturating sums) for ALL 2^96 pixel triples, via an assume-guarantee split (macro == spec lemmas for all arguments, "
        "then combiner with re-bound macros vs oracle); integer PDF blend combiners are within rounding of the exact "
        "real-valued formula; float combiners (all Porter-Duff, DISJOINT_*, CONJOINT_* and the division-free blend operators) land within one 8-bit step of the exact rational value (alphas from a grid, colours symbolic) and obey the mask law (masked == pre-masked, bit-identical, mask alpha symbolic); "
        "pixman_image_composite32 on 2x1 images equals the oracle for a few operator/format combinations (all pixels symbolic).")
NOTE = ("Trusted: CBMC's C semantics, the oracle headers oracle/arith.h, oracle/pd.h (independent of pixman's macros), the "
        "uninterpreted-function abstraction of o_mul255 (its algebraic facts are proved by lemma 0). Bounds: width <= 2 per call; "
        "hard blend operators (MULTIPLY/DARKEN/LIGHTEN) and masked blend operators only for alphas/masks on a concrete grid.")
RULE = "C01 instance = (layer, operator, mask mode[, alpha/mask grid point])."
BOUNDS = {"width": "1-2 pixels per combiner call", "pixels": "all 32-bit values symbolic",
          "blend_hard_ops": "source/dest alpha from grid, colours symbolic", "masked_blend": "mask and alphas concrete, colours symbolic"}
OUTSIDE = ["float values for alpha pairs outside the grid", "COLOR_DODGE, COLOR_BURN, SOFT_LIGHT, SATURATE and the HSL operators' values (mask law only)", "alpha pairs outside the grid for MULTIPLY/DARKEN/LIGHTEN and masked blend operators", "dithering"]
ASSUMPTIONS = ["PDF blend operators: inputs premultiplied (colour <= alpha), as the statement says"]
