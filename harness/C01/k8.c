/* C01-k8: one combiner of the real pixman-combine32.c (selected through the
 * real _pixman_setup_combiner_functions_32 table) against the Porter-Duff /
 * PDF-blend oracle, all pixel values symbolic.
 *   -DOP=<pixman_op_t value>  -DMODE=0|1|2 (no mask / unified / component alpha)
 *   -DWIDTH=n                 -DVP_SPLIT (macros rebound to their proven specs,
 *                              o_mul255 uninterpreted; see lemma_macros.c)       */
#include "vp.h"
#include <config.h>
#include "pixman-private.h"
#include "pixman-combine32.h"
#ifdef VP_SPLIT
/* byte-identical scratch copy of /repo/pixman/pixman-combine32.c whose
 * #include "pixman-combine32.h" resolves to a shim = real header + rebind.h */
#include VP_SHADOW_UNIT
#else
#include "pixman-combine32.c"
#endif
#include "pd.h"

#ifndef WIDTH
#define WIDTH 1
#endif
#define CANARY 0xc0ffee11u

/* exact PDF separable blend result of one colour channel, numerator over 255^2 */
static int o_blend_num (int op, int s, int sa, int d, int da)
{
    int B, t1 = s * da, t2 = d * sa;
    switch (op)
    {
    case PIXMAN_OP_MULTIPLY:   B = s * d; break;
    case PIXMAN_OP_SCREEN:     B = t1 + t2 - s * d; break;
    case PIXMAN_OP_OVERLAY:    B = (2 * d < da) ? 2 * s * d : sa * da - 2 * (da - d) * (sa - s); break;
    case PIXMAN_OP_HARD_LIGHT: B = (2 * s < sa) ? 2 * s * d : sa * da - 2 * (da - d) * (sa - s); break;
    case PIXMAN_OP_DARKEN:     B = t1 < t2 ? t1 : t2; break;
    case PIXMAN_OP_LIGHTEN:    B = t1 > t2 ? t1 : t2; break;
    case PIXMAN_OP_DIFFERENCE: B = t1 > t2 ? t1 - t2 : t2 - t1; break;
    default /* EXCLUSION */:   B = t1 + t2 - 2 * d * s; break;
    }
    return (255 - sa) * d + (255 - da) * s + B;
}

void harness (void)
{
    struct { uint32_t pre; uint32_t px[WIDTH]; uint32_t post; } D;
    uint32_t src[WIDTH], mask[WIDTH], dst0[WIDTH];
    pixman_implementation_t imp;
    int i, c;

    for (i = 0; i < WIDTH; i++)
    {
	VP_SYM_IDX (src, i); VP_SYM_IDX (mask, i); VP_SYM_IDX (dst0, i);
#if OP >= 0x30
	/* PDF blend operators are defined on premultiplied colours */
	for (c = 0; c < 3; c++)
	{
	    VP_ASSUME (o_ch (src[i], c) <= o_ch (src[i], 3));
	    VP_ASSUME (o_ch (dst0[i], c) <= o_ch (dst0[i], 3));
	}
#endif
#ifdef MASK_FIX
	VP_ASSUME (mask[i] == MASK_FIX);
#endif
#ifdef SA_FIX
	VP_ASSUME (o_ch (src[i], 3) == SA_FIX);
#endif
#ifdef DA_FIX
	VP_ASSUME (o_ch (dst0[i], 3) == DA_FIX);
#endif
	D.px[i] = dst0[i];
    }
    D.pre = D.post = CANARY;
    memset (&imp, 0, sizeof imp);
    _pixman_setup_combiner_functions_32 (&imp);

#if MODE == 2
    VP_ASSERT (imp.combine_32_ca[OP] != 0, "combiner present");
    imp.combine_32_ca[OP] (&imp, OP, D.px, src, mask, WIDTH);
#else
    VP_ASSERT (imp.combine_32[OP] != 0, "combiner present");
    imp.combine_32[OP] (&imp, OP, D.px, src, MODE ? mask : NULL, WIDTH);
#endif

    VP_ASSERT (D.pre == CANARY && D.post == CANARY, "writes confined to dest[0..width)");
    for (i = 0; i < WIDTH; i++)
    {
#if OP <= 0x0c
	VP_ASSERT (o_ch (D.px[i], 0) == o_pd_channel (OP, MODE, src[i], mask[i], dst0[i], 0), "blue == oracle");
	VP_ASSERT (o_ch (D.px[i], 1) == o_pd_channel (OP, MODE, src[i], mask[i], dst0[i], 1), "green == oracle");
	VP_ASSERT (o_ch (D.px[i], 2) == o_pd_channel (OP, MODE, src[i], mask[i], dst0[i], 2), "red == oracle");
	VP_ASSERT (o_ch (D.px[i], 3) == o_pd_channel (OP, MODE, src[i], mask[i], dst0[i], 3), "alpha == oracle");
#else
	static const char *const nm[3] = { "blue", "green", "red" };
	int da = o_ch (dst0[i], 3), sa0 = o_ch (src[i], 3), tol = (OP == PIXMAN_OP_MULTIPLY) ? 383 : 128;
	int sa1 = MODE ? o_mul255 (sa0, o_ch (mask[i], 3)) : sa0;
	int na = 255 * da + 255 * sa1 - sa1 * da;
	int oa = o_ch (D.px[i], 3);
#if !defined(CH) || CH == 3
	VP_ASSERT (255 * oa - na < 128 && na - 255 * oa < 128, "alpha = as + ad - as*ad (nearest)");
#endif
	for (c = 0; c < 3; c++)
	{
#ifdef CH
	    if (c != CH) continue;
#endif
	    int s1 = o_ch (src[i], c), sac = sa0, n, o = o_ch (D.px[i], c);
	    if (MODE == 1) { s1 = o_mul255 (s1, o_ch (mask[i], 3)); sac = sa1; }
	    if (MODE == 2) { s1 = o_mul255 (s1, o_ch (mask[i], c)); sac = o_mul255 (o_ch (mask[i], c), sa0); }
#ifdef VP_UF
	    /* o_mul255 is uninterpreted here: re-supply monotonicity (lemma 0):
	     * s_c <= as  ==>  s_c (x) m <= as (x) m */
	    VP_ASSUME (s1 <= sac);
#endif
	    n = o_blend_num (OP, s1, sac, o_ch (dst0[i], c), da);
	    if (n < 0) n = 0;
	    if (n > 255 * 255) n = 255 * 255;
	    VP_ASSERT (255 * o - n < tol && n - 255 * o < tol, "colour channel within tolerance of the exact PDF blend value");
	}
#endif
    }
    VP_END ();
}
#ifdef VP_REPLAY
int main (void) { harness (); return 0; }
#endif
