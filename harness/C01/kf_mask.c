/* C01-kf (float pipeline, mask law): for the unified float combiner of operator
 * -DOP (real pixman-combine-float.c, through the real setup table), combining
 * with a mask equals combining the pre-masked source (every channel times the
 * mask alpha) without a mask - bit-identically, since the Render equations
 * define the masked operation exactly that way.  All nine float inputs are
 * symbolic in [0,1].                                                        */
#include "vp.h"
#include <config.h>
#include "pixman-combine-float.c"

void harness (void)
{
    float s[4], m[4], d1[4], d2[4], sp[4]; int i; pixman_implementation_t imp;
    /* inputs come from 8-bit channel values, as the float pipeline gets them from pixman_expand_to_float */
    unsigned char sb[4], db[4], mb;
#ifdef COLFIX
    /* colours concrete per instance (menu), mask alpha symbolic: a fully symbolic equivalence of two float pipelines does not finish */
    { static const unsigned char cs[][4] = { { 200, 150, 100, 50 }, { 255, 255, 0, 128 }, { 128, 10, 120, 64 } }, cd[][4] = { { 180, 40, 160, 90 }, { 255, 0, 255, 7 }, { 64, 60, 1, 33 } };
      for (i = 0; i < 4; i++) { sb[i] = cs[COLFIX][i]; db[i] = cd[COLFIX][i]; } }
    for (i = 0; i < 4; i++) { s[i] = sb[i] * (1.0f / 255.0f); d1[i] = d2[i] = db[i] * (1.0f / 255.0f); }
#else
    for (i = 0; i < 4; i++) { VP_SYM_IDX (sb, i); VP_SYM_IDX (db, i); s[i] = sb[i] * (1.0f / 255.0f); d1[i] = d2[i] = db[i] * (1.0f / 255.0f); }
#endif
    VP_SYM (mb); m[0] = mb * (1.0f / 255.0f); m[1] = m[2] = m[3] = m[0];
    for (i = 0; i < 4; i++) sp[i] = s[i] * m[0];
    memset (&imp, 0, sizeof imp);
    _pixman_setup_combiner_functions_float (&imp);
    VP_ASSERT (imp.combine_float[OP] != 0, "combiner present");
    imp.combine_float[OP] (&imp, OP, d1, s, m, 1);
    imp.combine_float[OP] (&imp, OP, d2, sp, NULL, 1);
    for (i = 0; i < 4; i++)
	VP_ASSERT (d1[i] == d2[i] || (d1[i] != d1[i] && d2[i] != d2[i]), "masked combine == unmasked combine of the pre-masked source (alpha, red, green, blue)");
    VP_END ();
}
#ifdef VP_REPLAY
int main (void) { harness (); return 0; }
#endif
