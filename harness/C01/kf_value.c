/* C01-kf (float pipeline, values): the unified float combiner of operator -DOP
 * (real pixman-combine-float.c via its setup table), fed the way the float
 * pipeline feeds it (8-bit premultiplied channels expanded by
 * pixman_expand_to_float, result narrowed by pixman_contract_from_float), lands
 * within ONE 8-bit step of the exact rational value of the Render / PDF
 * equation.  Source and destination alpha are concrete per instance (-DSA -DDA,
 * grid) so that the Porter-Duff factors are exact rationals; the colour
 * channels of source and destination are symbolic (0..alpha).
 * Operators: Porter-Duff, ADD, DISJOINT_*, CONJOINT_*, separable blend modes
 * without division (MULTIPLY SCREEN OVERLAY DARKEN LIGHTEN HARD_LIGHT
 * DIFFERENCE EXCLUSION).                                                    */
#include "vp.h"
#include <config.h>
#include "pixman-combine-float.c"
#include "pixman-utils.c"

typedef struct { long n, d; } rat_t;	/* n/d, d > 0 */
static rat_t R (long n, long d) { rat_t r; r.n = n; r.d = d; return r; }
/* clamp to [0,1] */
static rat_t clamp01 (rat_t r) { if (r.n < 0) return R (0, 1); if (r.n > r.d) return R (1, 1); return r; }
enum { F_ZERO, F_ONE, F_SA, F_DA, F_ISA, F_IDA,
       F_DISJ_OUT_S /* min(1,(1-da)/sa) */, F_DISJ_OUT_D /* min(1,(1-sa)/da) */, F_DISJ_IN_S /* max(1-(1-da)/sa,0) */, F_DISJ_IN_D /* max(1-(1-sa)/da,0) */,
       F_CONJ_IN_S /* min(1,da/sa) */, F_CONJ_IN_D /* min(1,sa/da) */, F_CONJ_OUT_S /* max(1-da/sa,0) */, F_CONJ_OUT_D /* max(1-sa/da,0) */ };
/* alphas in units of 1/255 */
static rat_t factor (int f, long sa, long da)
{
    switch (f)
    {
    case F_ZERO: return R (0, 1);
    case F_ONE:  return R (1, 1);
    case F_SA:   return R (sa, 255);
    case F_DA:   return R (da, 255);
    case F_ISA:  return R (255 - sa, 255);
    case F_IDA:  return R (255 - da, 255);
    case F_DISJ_OUT_S: return sa == 0 ? R (1, 1) : clamp01 (R (255 - da, sa));
    case F_DISJ_OUT_D: return da == 0 ? R (1, 1) : clamp01 (R (255 - sa, da));
    case F_DISJ_IN_S:  return sa == 0 ? R (0, 1) : clamp01 (R (sa - (255 - da), sa));
    case F_DISJ_IN_D:  return da == 0 ? R (0, 1) : clamp01 (R (da - (255 - sa), da));
    case F_CONJ_IN_S:  return sa == 0 ? R (1, 1) : clamp01 (R (da, sa));
    case F_CONJ_IN_D:  return da == 0 ? R (1, 1) : clamp01 (R (sa, da));
    case F_CONJ_OUT_S: return sa == 0 ? R (0, 1) : clamp01 (R (sa - da, sa));
    default:           return da == 0 ? R (0, 1) : clamp01 (R (da - sa, da));
    }
}
/* (Fa, Fb) per operator family, Render protocol tables */
static void op_factors (int op, int *fa, int *fb)
{
    static const unsigned char pd[12][2] = { { F_ZERO, F_ZERO }, { F_ONE, F_ZERO }, { F_ZERO, F_ONE }, { F_ONE, F_ISA }, { F_IDA, F_ONE }, { F_DA, F_ZERO },
	{ F_ZERO, F_SA }, { F_IDA, F_ZERO }, { F_ZERO, F_ISA }, { F_DA, F_ISA }, { F_IDA, F_SA }, { F_IDA, F_ISA } };
    static const unsigned char dj[12][2] = { { F_ZERO, F_ZERO }, { F_ONE, F_ZERO }, { F_ZERO, F_ONE }, { F_ONE, F_DISJ_OUT_D }, { F_DISJ_OUT_S, F_ONE }, { F_DISJ_IN_S, F_ZERO },
	{ F_ZERO, F_DISJ_IN_D }, { F_DISJ_OUT_S, F_ZERO }, { F_ZERO, F_DISJ_OUT_D }, { F_DISJ_IN_S, F_DISJ_OUT_D }, { F_DISJ_OUT_S, F_DISJ_IN_D }, { F_DISJ_OUT_S, F_DISJ_OUT_D } };
    static const unsigned char cj[12][2] = { { F_ZERO, F_ZERO }, { F_ONE, F_ZERO }, { F_ZERO, F_ONE }, { F_ONE, F_CONJ_OUT_D }, { F_CONJ_OUT_S, F_ONE }, { F_CONJ_IN_S, F_ZERO },
	{ F_ZERO, F_CONJ_IN_D }, { F_CONJ_OUT_S, F_ZERO }, { F_ZERO, F_CONJ_OUT_D }, { F_CONJ_IN_S, F_CONJ_OUT_D }, { F_CONJ_OUT_S, F_CONJ_IN_D }, { F_CONJ_OUT_S, F_CONJ_OUT_D } };
    if (op == PIXMAN_OP_ADD) { *fa = F_ONE; *fb = F_ONE; }
    else if (op < 0x10) { *fa = pd[op][0]; *fb = pd[op][1]; }
    else if (op < 0x20) { *fa = dj[op - 0x10][0]; *fb = dj[op - 0x10][1]; }
    else { *fa = cj[op - 0x20][0]; *fb = cj[op - 0x20][1]; }
}
static long blend_num (int op, long s, long sa, long d, long da)	/* units 1/255^2 */
{
    long B, t1 = s * da, t2 = d * sa;
    switch (op)
    {
    case PIXMAN_OP_MULTIPLY:   B = s * d; break;
    case PIXMAN_OP_SCREEN:     B = t1 + t2 - s * d; break;
    case PIXMAN_OP_OVERLAY:    B = (2 * d < da) ? 2 * s * d : sa * da - 2 * (da - d) * (sa - s); break;
    case PIXMAN_OP_HARD_LIGHT: B = (2 * s < sa) ? 2 * s * d : sa * da - 2 * (da - d) * (sa - s); break;
    case PIXMAN_OP_DARKEN:     B = t1 < t2 ? t1 : t2; break;
    case PIXMAN_OP_LIGHTEN:    B = t1 > t2 ? t1 : t2; break;
    case PIXMAN_OP_DIFFERENCE: B = t1 > t2 ? t1 - t2 : t2 - t1; break;
    default:                   B = t1 + t2 - 2 * d * s; break;
    }
    return (255 - sa) * d + (255 - da) * s + B;
}

void harness (void)
{
    uint8_t sc, dc; uint32_t sp, dp, out; argb_t sf, df; pixman_implementation_t imp;
    VP_SYM (sc); VP_SYM (dc);
    VP_ASSUME (sc <= SA && dc <= DA);				/* premultiplied */
    sp = ((uint32_t) SA << 24) | ((uint32_t) sc << 16) | ((uint32_t) sc << 8) | sc;
    dp = ((uint32_t) DA << 24) | ((uint32_t) dc << 16) | ((uint32_t) dc << 8) | dc;
    pixman_expand_to_float (&sf, &sp, PIXMAN_a8r8g8b8, 1);
    pixman_expand_to_float (&df, &dp, PIXMAN_a8r8g8b8, 1);
    memset (&imp, 0, sizeof imp);
    _pixman_setup_combiner_functions_float (&imp);
    VP_ASSERT (imp.combine_float[OP] != 0, "combiner present");
    imp.combine_float[OP] (&imp, OP, (float *) &df, (const float *) &sf, NULL, 1);
    pixman_contract_from_float (&out, &df, 1);
    long oa = out >> 24, oc = (out >> 16) & 0xff;
    VP_ASSERT (((out >> 8) & 0xff) == oc && (out & 0xff) == oc, "equal channels give equal results");
#if OP < 0x30
    {
	int fa, fb; op_factors (OP, &fa, &fb);
	rat_t Fa = factor (fa, SA, DA), Fb = factor (fb, SA, DA);
	long D = Fa.d * Fb.d;
	long Na = Fa.n * Fb.d * SA + Fb.n * Fa.d * DA, Nc = Fa.n * Fb.d * (long) sc + Fb.n * Fa.d * (long) dc;
	if (Na > 255 * D) Na = 255 * D;
	if (Nc > 255 * D) Nc = 255 * D;
	VP_ASSERT (oa * D - Na <= D && Na - oa * D <= D, "alpha within one 8-bit step of Fa*as + Fb*ad");
	VP_ASSERT (oc * D - Nc <= D && Nc - oc * D <= D, "colour within one 8-bit step of Fa*s + Fb*d");
    }
#else
    {
	long na = 255 * (long) SA + 255 * (long) DA - (long) SA * DA, nc = blend_num (OP, sc, SA, dc, DA);
	if (nc > 255 * 255) nc = 255 * 255; if (nc < 0) nc = 0;
	VP_ASSERT (oa * 255 - na <= 255 && na - oa * 255 <= 255, "alpha within one 8-bit step of as + ad - as*ad");
	VP_ASSERT (oc * 255 - nc <= 255 && nc - oc * 255 <= 255, "colour within one 8-bit step of the PDF blend equation");
    }
#endif
    VP_END ();
}
#ifdef VP_REPLAY
int main (void) { harness (); return 0; }
#endif
