/* C01 lemma layer: every arithmetic macro of pixman-combine32.h equals its
 * per-channel specification for ALL arguments (a, b range over 0..255, which
 * the rebinding in k8.c re-asserts at each use).  -DMACRO=n selects one. */
#include "vp.h"
#include <config.h>
#include "pixman-private.h"
#include "pixman-combine32.h"
#include "spec_un8x4.h"

void harness (void)
{
    uint32_t x, y, a4; uint8_t a, b;
    VP_SYM (x); VP_SYM (y); VP_SYM (a4); VP_SYM (a); VP_SYM (b);
    uint32_t got = x, want;
#if MACRO == 0
    { uint32_t t; uint8_t p, q; VP_SYM (p); VP_SYM (q);
      got = MUL_UN8 (p, q, t); want = o_mul255_closed (p, q);
      /* and the relational characterisation of the closed form itself */
      int pr = (int) p * q;
      VP_ASSERT (255 * (int) want - 127 <= pr && pr <= 255 * (int) want + 127, "closed form is the nearest integer to pq/255");
      VP_ASSERT (o_mul255_closed (p, 0) == 0 && o_mul255_closed (0, q) == 0, "zero");
      VP_ASSERT (o_mul255_closed (p, 255) == p && o_mul255_closed (255, q) == q, "one");
      VP_ASSERT (o_mul255_closed (p, q) == o_mul255_closed (q, p), "commutative");
      { uint8_t p2; VP_SYM (p2); VP_ASSERT (p2 > p || o_mul255_closed (p2, q) <= o_mul255_closed (p, q), "monotone"); }
    }
#elif MACRO == 1
    UN8x4_MUL_UN8 (got, a); want = spec_mul_un8 (x, a);
#elif MACRO == 2
    UN8x4_MUL_UN8_ADD_UN8x4 (got, a, y); want = spec_mul_un8_add (x, a, y);
#elif MACRO == 3
    UN8x4_MUL_UN8_ADD_UN8x4_MUL_UN8 (got, a, y, b); want = spec_mul_un8_add_mul_un8 (x, a, y, b);
#elif MACRO == 4
    UN8x4_MUL_UN8x4 (got, a4); want = spec_mul_un8x4 (x, a4);
#elif MACRO == 5
    UN8x4_MUL_UN8x4_ADD_UN8x4 (got, a4, y); want = spec_mul_un8x4_add (x, a4, y);
#elif MACRO == 6
    UN8x4_MUL_UN8x4_ADD_UN8x4_MUL_UN8 (got, a4, y, b); want = spec_mul_un8x4_add_mul_un8 (x, a4, y, b);
#elif MACRO == 7
    UN8x4_ADD_UN8x4 (got, y); want = spec_add_un8x4 (x, y);
#elif MACRO == 8
    { uint32_t t; uint8_t p, q; VP_SYM (p); VP_SYM (q);
      got = ADD_UN8 (p, q, t); want = o_sat_add8 (p, q); }
#elif MACRO == 9
    /* DIV_ONE_UN8 (v): v/255 rounded to nearest, for v in [0, 255*255] */
    { uint32_t v; VP_SYM (v); VP_ASSUME (v <= 255 * 255);
      got = DIV_ONE_UN8 (v);
      VP_ASSERT (got <= 255 && 255 * (int) got - 127 <= (int) v && (int) v <= 255 * (int) got + 127, "DIV_ONE_UN8 rounds to nearest");
      want = got; }
#endif
    VP_ASSERT ((got & 0xff) == (want & 0xff), "macro == spec, channel 0");
    VP_ASSERT ((got & 0xff00) == (want & 0xff00), "macro == spec, channel 1");
    VP_ASSERT ((got & 0xff0000) == (want & 0xff0000), "macro == spec, channel 2");
    VP_ASSERT ((got & 0xff000000) == (want & 0xff000000), "macro == spec, channel 3");
    VP_END ();
}
#ifdef VP_REPLAY
int main (void) { harness (); return 0; }
#endif
