/* Re-binding of the UN8x4_* macros to their specifications (proved equal for
 * all arguments by lemma_macros.c).  Included right after the real
 * pixman-combine32.h through the shadow-include shim. */
#include "vp.h"
#include "spec_un8x4.h"
static inline uint8_t vp_a8 (uint32_t a) { VP_ASSERT (a <= 255, "8-bit factor at rebound macro"); return (uint8_t) a; }
#define VP_A8(a) vp_a8 (a)
#undef UN8x4_MUL_UN8
#undef UN8x4_MUL_UN8_ADD_UN8x4
#undef UN8x4_MUL_UN8_ADD_UN8x4_MUL_UN8
#undef UN8x4_MUL_UN8x4
#undef UN8x4_MUL_UN8x4_ADD_UN8x4
#undef UN8x4_MUL_UN8x4_ADD_UN8x4_MUL_UN8
#undef UN8x4_ADD_UN8x4
#define UN8x4_MUL_UN8(x, a) ((x) = spec_mul_un8 ((x), VP_A8 (a)))
#define UN8x4_MUL_UN8_ADD_UN8x4(x, a, y) ((x) = spec_mul_un8_add ((x), VP_A8 (a), (y)))
#define UN8x4_MUL_UN8_ADD_UN8x4_MUL_UN8(x, a, y, b) ((x) = spec_mul_un8_add_mul_un8 ((x), VP_A8 (a), (y), VP_A8 (b)))
#define UN8x4_MUL_UN8x4(x, a) ((x) = spec_mul_un8x4 ((x), (a)))
#define UN8x4_MUL_UN8x4_ADD_UN8x4(x, a, y) ((x) = spec_mul_un8x4_add ((x), (a), (y)))
#define UN8x4_MUL_UN8x4_ADD_UN8x4_MUL_UN8(x, a, y, b) ((x) = spec_mul_un8x4_add_mul_un8 ((x), (a), (y), VP_A8 (b)))
#define UN8x4_ADD_UN8x4(x, y) ((x) = spec_add_un8x4 ((x), (y)))
