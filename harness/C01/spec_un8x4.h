/* Specifications of the UN8x4_* macro family of pixman-combine32.h, written
 * from the comments above each macro ("x_c = (x_c * a) / 255 + y_c", ...),
 * per channel over o_mul255 / o_sat_add8.  Used twice:
 *   lemma_macros.c  proves  real macro == spec  for all arguments;
 *   k8.c -DVP_SPLIT rebinds the macros to these specs (with o_mul255 an
 *   uninterpreted function) so the combiner/oracle comparison is structural. */
#ifndef SPEC_UN8X4_H
#define SPEC_UN8X4_H
#include "arith.h"

#define SPEC_MAP4(expr)							\
    ((uint32_t) (expr (0)) | ((uint32_t) (expr (1)) << 8) |		\
     ((uint32_t) (expr (2)) << 16) | ((uint32_t) (expr (3)) << 24))

static inline uint32_t spec_mul_un8 (uint32_t x, uint8_t a)
{
#define E(c) o_mul255 (o_ch (x, c), a)
    return SPEC_MAP4 (E);
#undef E
}
static inline uint32_t spec_mul_un8_add (uint32_t x, uint8_t a, uint32_t y)
{
#define E(c) o_sat_add8 (o_mul255 (o_ch (x, c), a), o_ch (y, c))
    return SPEC_MAP4 (E);
#undef E
}
static inline uint32_t spec_mul_un8_add_mul_un8 (uint32_t x, uint8_t a, uint32_t y, uint8_t b)
{
#define E(c) o_sat_add8 (o_mul255 (o_ch (x, c), a), o_mul255 (o_ch (y, c), b))
    return SPEC_MAP4 (E);
#undef E
}
static inline uint32_t spec_mul_un8x4 (uint32_t x, uint32_t a)
{
#define E(c) o_mul255 (o_ch (x, c), o_ch (a, c))
    return SPEC_MAP4 (E);
#undef E
}
static inline uint32_t spec_mul_un8x4_add (uint32_t x, uint32_t a, uint32_t y)
{
#define E(c) o_sat_add8 (o_mul255 (o_ch (x, c), o_ch (a, c)), o_ch (y, c))
    return SPEC_MAP4 (E);
#undef E
}
static inline uint32_t spec_mul_un8x4_add_mul_un8 (uint32_t x, uint32_t a, uint32_t y, uint8_t b)
{
#define E(c) o_sat_add8 (o_mul255 (o_ch (x, c), o_ch (a, c)), o_mul255 (o_ch (y, c), b))
    return SPEC_MAP4 (E);
#undef E
}
static inline uint32_t spec_add_un8x4 (uint32_t x, uint32_t y)
{
#define E(c) o_sat_add8 (o_ch (x, c), o_ch (y, c))
    return SPEC_MAP4 (E);
#undef E
}
#endif
