/* C02-T3: implementation selection of the real pixman-implementation.c.
 * -DMODE 0: _pixman_disabled(name) for a SYMBOLIC PIXMAN_DISABLE string of up
 *           to ENVLEN characters over {' ', letters}: TRUE iff name is one of
 *           the space-separated tokens (oracle: independent tokeniser)
 *        1: _pixman_choose_implementation() for PIXMAN_DISABLE = -DENVSTR:
 *           chain is noop -> [fast] -> general, 'fast' present iff not disabled,
 *           'wholeops' empties the fast-path table of every level except
 *           general and nothing else (this build has no SIMD levels).       */
#include "vp.h"
#include <config.h>
#include "pixman-implementation.c"
extern const char *vp_env_string;
#ifndef ENVLEN
#define ENVLEN 8
#endif

static int o_has_token (const char *env, int n, const char *name, int namelen)
{
    int i = 0, found = 0;
    while (i <= n)
    {
	int j = i;
	while (j < n && env[j] != ' ') j++;
	if (j - i == namelen) { int k, eq = 1; for (k = 0; k < namelen; k++) if (env[i + k] != name[k]) eq = 0; if (eq) found = 1; }
	i = j + 1;
    }
    return found;
}

void harness (void)
{
#if MODE == 0
    static char env[ENVLEN + 1]; int n, i;
    VP_SYM (n); VP_ASSUME (n >= 0 && n <= ENVLEN);
    for (i = 0; i < ENVLEN; i++)
    {
	VP_SYM_IDX (env, i);
	if (i < n) VP_ASSUME (env[i] == ' ' || env[i] == 'f' || env[i] == 'a' || env[i] == 's' || env[i] == 't' || env[i] == 'x');
	else env[i] = 0;
    }
    env[ENVLEN] = 0;
    vp_env_string = env;
    VP_ASSERT ((_pixman_disabled ("fast") != 0) == o_has_token (env, n, "fast", 4), "'fast' disabled iff it is one of the space-separated tokens");
    VP_ASSERT ((_pixman_disabled ("sse2") != 0) == 0 || o_has_token (env, n, "sse2", 4), "'sse2' not disabled unless listed");
    VP_ASSERT ((_pixman_disabled ("fa") != 0) == o_has_token (env, n, "fa", 2), "prefixes are not matched");
    vp_env_string = 0;
    VP_ASSERT (!_pixman_disabled ("fast"), "nothing disabled without PIXMAN_DISABLE");
#else
    vp_env_string = ENVSTR;
    pixman_implementation_t *top = _pixman_choose_implementation (), *g;
    VP_ASSUME (top != 0);
    int want_fast = !EXPECT_FAST_DISABLED, want_whole = EXPECT_WHOLEOPS, depth = 0;
    /* noop on top */
    pixman_implementation_t *cur = top;
    VP_ASSERT (cur->fallback != 0, "noop level has a fallback");
    if (want_fast)
    {
	VP_ASSERT (cur->fallback->fallback != 0 && cur->fallback->fallback->fallback == 0, "chain is noop -> fast -> general");
	g = cur->fallback->fallback;
	VP_ASSERT (cur->fallback->fill != 0, "fast level provides fill");
    }
    else
    {
	VP_ASSERT (cur->fallback->fallback == 0, "chain is noop -> general when 'fast' is disabled");
	g = cur->fallback;
    }
    for (cur = top; cur; cur = cur->fallback) { depth++; VP_ASSERT (cur->toplevel == top, "every level points at the top level"); }
    for (cur = top; cur != g; cur = cur->fallback)
	VP_ASSERT ((cur->fast_paths[0].op == PIXMAN_OP_NONE && want_whole) || !want_whole, "wholeops empties the whole-operation table of every level above general");
    if (!want_whole && want_fast) VP_ASSERT (top->fallback->fast_paths[0].op != PIXMAN_OP_NONE, "fast paths present when not disabled");
    VP_ASSERT (g->fast_paths[0].op != PIXMAN_OP_NONE, "general keeps its table in every configuration");
#endif
    VP_END ();
}
#ifdef VP_REPLAY
int main (void) { harness (); return 0; }
#endif
