/* C02-T1: C fast paths vs the general path, bit for bit.  The same request runs
 * once under chain A (noop -> fast -> general, what _pixman_choose_implementation
 * builds) and once under chain B (general alone), built with the real
 * constructors; the thread-local fast-path cache is cleared in between (this
 * TU includes pixman-implementation.c to reach it).  Destination buffers
 * including row padding must be identical.  The request template (-DTPL) picks
 * operator/formats so that a particular c_fast_paths routine is selected under
 * chain A; all pixels are symbolic, geometry concrete (-DW width).            */
#include "api_common.h"
#include "pixman-implementation.c"
#ifndef W
#define W 3
#endif
#define H 2
#define SWD (W + 1)	/* words per row incl. padding (32 bpp worst case) */

static void clear_cache (void)
{
    cache_t *c = PIXMAN_GET_THREAD_LOCAL (fast_path_cache);
    memset (c, 0, sizeof *c);
    { int i; for (i = 0; i < N_CACHED_FAST_PATHS; i++) c->cache[i].fast_path.op = PIXMAN_OP_NONE; }
}

static void run (uint32_t *d, const uint32_t *s, const uint32_t *m)
{
    uint32_t sc[H * SWD], mc[H * SWD]; int i;
    for (i = 0; i < H * SWD; i++) { sc[i] = s[i]; mc[i] = m[i]; }
    pixman_image_t *dst = vp_img (DFMT, W, H, d, SWD), *src, *msk = NULL;
#if SRC_SOLID
    pixman_color_t col = { (uint16_t) (s[0] >> 8 & 0xff) * 257, (uint16_t) (s[0] >> 16 & 0xff) * 257, (uint16_t) (s[0] & 0xff) * 257, SOLID_ALPHA };
    src = pixman_image_create_solid_fill (&col); VP_ASSUME (src != NULL);
#else
    src = vp_img (SFMT, W, H, sc, SWD);
#endif
#ifdef MFMT
    msk = vp_img (MFMT, W, H, mc, SWD);
#if MASK_CA
    pixman_image_set_component_alpha (msk, 1);
#endif
#endif
#ifdef SCALE
    { pixman_transform_t t; pixman_transform_init_scale (&t, SCALE, 65536); VP_ASSUME (pixman_image_set_transform (src, &t)); pixman_image_set_repeat (src, SREPEAT); }
#endif
    pixman_image_composite32 (OP, src, msk, dst, 0, 0, 0, 0, 0, 0, W, H);
}

void harness (void)
{
    uint32_t s[H * SWD], m[H * SWD], d0[H * SWD], da[H * SWD], db[H * SWD]; int i;
    for (i = 0; i < H * SWD; i++) { VP_SYM_IDX (s, i); VP_SYM_IDX (m, i); VP_SYM_IDX (d0, i); da[i] = db[i] = d0[i]; }
    pixman_implementation_t *g1 = _pixman_implementation_create_general (), *g2 = _pixman_implementation_create_general ();
    VP_ASSUME (g1 && g2);
    pixman_implementation_t *f = _pixman_implementation_create_fast_path (g1); VP_ASSUME (f != NULL);
#ifdef WITH_SSE2
    /* chain A = noop -> sse2 -> fast -> general: the level under test is the SSE2 one */
    f = _pixman_implementation_create_sse2 (f); VP_ASSUME (f != NULL);
#endif
    pixman_implementation_t *chainA = _pixman_implementation_create_noop (f); VP_ASSUME (chainA != NULL);
    global_implementation = chainA; clear_cache ();
    run (da, s, m);
#ifdef EXPECT_FUNC
    { cache_t *c = PIXMAN_GET_THREAD_LOCAL (fast_path_cache);
      VP_ASSERT (c->cache[0].imp == f, "the request was served by the fast-path level (template reaches the routine under test)"); }
#endif
    global_implementation = g2; clear_cache ();
    run (db, s, m);
    for (i = 0; i < H * SWD; i++) VP_ASSERT (da[i] == db[i], "fast path and general path leave bit-identical destinations (incl. padding)");
    VP_END ();
}
#ifdef VP_REPLAY
int main (void) { harness (); return 0; }
#endif
