/* C02-T2 / C19: pixman_fill and pixman_blt through the implementation chain with
 * the SSE2 level (real sse2_fill / sse2_blt, x86 intrinsics through validated
 * models) against the rectangle semantics and against the chain without SSE2:
 * identical effect, or failure reported with nothing changed.
 * Buffer contents and filler symbolic; geometry concrete per instance
 * (-DBPPV -DX -DY -DWD -DHT), buffer ROWS x STRIDEW words.                   */
#include "vp.h"
#include <config.h>
#include "pixman-sse2.c"
#ifndef ROWS
#define ROWS 2
#endif
#ifndef SSTRIDE
#define SSTRIDE STRIDEW
#endif
#ifndef STRIDEW
#define STRIDEW 12
#endif
void harness (void)
{
    static uint32_t a[ROWS * STRIDEW] __attribute__ ((aligned (16))), b[ROWS * STRIDEW] __attribute__ ((aligned (16)));
    static uint32_t a0[ROWS * STRIDEW], src[ROWS * STRIDEW] __attribute__ ((aligned (16)));
    uint32_t filler; int i;
    for (i = 0; i < ROWS * STRIDEW; i++) { VP_SYM_IDX (a0, i); VP_SYM_IDX (src, i); a[i] = b[i] = a0[i]; }
    VP_SYM (filler);
    pixman_implementation_t *gen = _pixman_implementation_create_general (); VP_ASSUME (gen != NULL);
    pixman_implementation_t *fast = _pixman_implementation_create_fast_path (gen); VP_ASSUME (fast != NULL);
    pixman_implementation_t *gen2 = _pixman_implementation_create_general (); VP_ASSUME (gen2 != NULL);
    pixman_implementation_t *fast2 = _pixman_implementation_create_fast_path (gen2); VP_ASSUME (fast2 != NULL);
    pixman_implementation_t *sse = _pixman_implementation_create_sse2 (fast2); VP_ASSUME (sse != NULL);
#if BLT
#ifdef PUBLIC
    /* C19: the PUBLIC entry point pixman_blt (pixman.c) over a chain that has a blt routine (the SSE2 level; the C levels have none).
     * -DINPLACE: source and destination are the SAME buffer with different strides (in-place field extraction, well defined top to bottom) */
    global_implementation = sse;
#ifdef INPLACE
    for (i = 0; i < ROWS * STRIDEW; i++) src[i] = a0[i];
    pixman_bool_t ok = pixman_blt (a, a, SSTRIDE, STRIDEW, BPPV, BPPV, SX, SY, X, Y, WD, HT);
#else
    pixman_bool_t ok = pixman_blt (src, a, SSTRIDE, STRIDEW, BPPV, BPPV, SX, SY, X, Y, WD, HT);
#endif
#else
    pixman_bool_t ok = _pixman_implementation_blt (sse, src, a, STRIDEW, STRIDEW, BPPV, BPPV, SX, SY, X, Y, WD, HT);
#endif
    VP_ASSERT (ok == (BPPV == 16 || BPPV == 32), "blt supported exactly for 16 and 32 bpp in this chain");
    { int r, bit; VP_SYM (r); VP_SYM (bit); VP_ASSUME (r >= 0 && r < ROWS && bit >= 0 && bit < STRIDEW * 32);
      int px = bit / BPPV, inside = ok && px >= X && px < X + WD && r >= Y && r < Y + HT;
      uint32_t got = (a[r * STRIDEW + bit / 32] >> (bit % 32)) & 1, old = (a0[r * STRIDEW + bit / 32] >> (bit % 32)) & 1;
      if (inside)
      {   int sbit = bit + (SX - X) * BPPV, sr = r + (SY - Y);
	  VP_ASSERT (got == ((src[sr * SSTRIDE + sbit / 32] >> (sbit % 32)) & 1), "blt copies exactly the addressed rectangle"); }
      else VP_ASSERT (got == old, "blt changes nothing outside the rectangle (or nothing at all on failure)"); }
#else
    pixman_bool_t ok1 = _pixman_implementation_fill (sse, a, STRIDEW, BPPV, X, Y, WD, HT, filler);
    pixman_bool_t ok2 = _pixman_implementation_fill (fast, b, STRIDEW, BPPV, X, Y, WD, HT, filler);
    VP_ASSERT (ok1 == ok2, "fill succeeds under the SSE2 chain exactly when it does under the C chain");
    for (i = 0; i < ROWS * STRIDEW; i++) VP_ASSERT (a[i] == b[i], "sse2_fill and fast_path_fill have the identical effect");
    if (!ok1) for (i = 0; i < ROWS * STRIDEW; i++) VP_ASSERT (a[i] == a0[i], "failed fill changed nothing");
#endif
    VP_END ();
}
#ifdef VP_REPLAY
int main (void) { harness (); return 0; }
#endif
