from vp.core import Inst, API_UNWINDSET

LEVEL = "translation_validation"
TPL = {
    "fast_composite_add_8_8": {"OP": 12, "SFMT": "PIXMAN_a8", "DFMT": "PIXMAN_a8", "SRC_SOLID": 0},
    "fast_composite_over_8888_0565": {"OP": 3, "SFMT": "PIXMAN_a8r8g8b8", "DFMT": "PIXMAN_r5g6b5", "SRC_SOLID": 0},
    "fast_composite_over_8888_8888": {"OP": 3, "SFMT": "PIXMAN_a8r8g8b8", "DFMT": "PIXMAN_a8r8g8b8", "SRC_SOLID": 0},
    "fast_composite_src_memcpy": {"OP": 1, "SFMT": "PIXMAN_a8r8g8b8", "DFMT": "PIXMAN_a8r8g8b8", "SRC_SOLID": 0},
    "fast_composite_add_8888_8888": {"OP": 12, "SFMT": "PIXMAN_a8r8g8b8", "DFMT": "PIXMAN_a8r8g8b8", "SRC_SOLID": 0},
    "fast_composite_scaled_nearest_8888_8888_OVER": {"OP": 3, "SFMT": "PIXMAN_a8r8g8b8", "DFMT": "PIXMAN_a8r8g8b8", "SRC_SOLID": 0, "SCALE": 32768, "SREPEAT": "PIXMAN_REPEAT_PAD"},
    "fast_composite_src_x888_8888": {"OP": 1, "SFMT": "PIXMAN_x8r8g8b8", "DFMT": "PIXMAN_a8r8g8b8", "SRC_SOLID": 0},
}
QUICK = ("fast_composite_add_8_8", "fast_composite_over_8888_0565")
ENVS = (("none", "0", 0, 0), ("fast", '"fast"', 1, 0), ("wholeops", '"wholeops"', 0, 1), ("wholeops-fast", '"wholeops fast"', 1, 1), ("junk", '"fastx sse2"', 0, 0))


def instances(tier):
    L = []
    L.append(Inst("disable-string-parsing", "C02/config.c", {"MODE": 0, "ENVLEN": 8}, link=[], unwind=12, timeout=900,
                  desc={"what": "_pixman_disabled for a SYMBOLIC PIXMAN_DISABLE string (<= 8 chars): TRUE iff the name is a space-separated token"}))
    for nm, env, fd, wo in ENVS:
        L.append(Inst("chain-" + nm, "C02/config.c", {"MODE": 1, "ENVSTR": env, "EXPECT_FAST_DISABLED": fd, "EXPECT_WHOLEOPS": wo},
                      exclude=("pixman-implementation.c",), unwind=70, objbits=12, timeout=900,
                      desc={"what": "_pixman_choose_implementation under this PIXMAN_DISABLE: noop -> [fast] -> general; wholeops empties exactly the tables above general"}))
    for n, d in TPL.items():
        if tier == "quick" and n not in QUICK:
            continue
        dd = dict(d); dd["EXPECT_FUNC"] = None; dd["VP_REL"] = None
        L.append(Inst("diff-" + n, "C02/diff.c", dd, exclude=("pixman-implementation.c",), unwind=14, unwindset=API_UNWINDSET + ("memcmp.0:40",), objbits=12, timeout=1500,
                      desc={"what": "request template served by this C fast path under chain noop->fast->general vs general alone: bit-identical destination incl. padding; all pixels symbolic", "routine": n}))
    # SSE2 combiners vs C combiners (x86 intrinsics through models/x86_builtins.c, validated natively by PRECHECK)
    EX = ("pixman-sse2.c", "pixman-ssse3.c", "pixman-mmx.c")
    sse = [("add_u", 12, 0, 0, 6, 0), ("src_ca", 1, 1, 0, 5, 0)]
    if tier == "thorough":
        sse += [("over_u", 3, 0, 0, 5, 1), ("in_u", 5, 0, 0, 5, 0), ("out_reverse_u", 8, 0, 0, 5, 3),
                ("add_ca", 12, 1, 0, 5, 1), ("add_u_masked", 12, 0, 1, 5, 0)]   # xor_u, over_ca, masked over: no verdict in 2400 s
    for nm, op, ca, mk, w, off in sse:
        L.append(Inst("sse2-combine-%s-w%d-off%d" % (nm, w, off), "C02/sse2_comb.c", {"OP": op, "CA": ca, "MASKED": mk, "W": w, "OFF": off},
                      simd=True, exclude=EX, models=("env_stubs.c", "x86_builtins.c"), unwind=70, objbits=12, timeout=2400 if tier == "thorough" else 900,
                      desc={"what": "SSE2 combiner (real pixman-sse2.c, installed by the real constructor) vs the C combiner: bit-identical pixels, nothing outside [0,w); pixels symbolic; head/vector/tail split by width and alignment offset", "routine": "sse2_combine_" + nm}))
    fb = [("fill-8bpp", {"BLT": 0, "BPPV": 8, "X": 3, "Y": 1, "WD": 41, "HT": 1}), ("fill-24bpp-refused", {"BLT": 0, "BPPV": 24, "X": 1, "Y": 0, "WD": 3, "HT": 1}),
          ("blt-8bpp-refused", {"BLT": 1, "BPPV": 8, "X": 0, "Y": 0, "WD": 4, "HT": 1, "SX": 0, "SY": 0})]
    if tier == "thorough":
        fb += [("fill-32bpp", {"BLT": 0, "BPPV": 32, "X": 1, "Y": 0, "WD": 10, "HT": 2}), ("fill-16bpp", {"BLT": 0, "BPPV": 16, "X": 1, "Y": 0, "WD": 21, "HT": 2}),
               ("blt-32bpp", {"BLT": 1, "BPPV": 32, "X": 1, "Y": 0, "WD": 9, "HT": 2, "SX": 2, "SY": 0}), ("blt-16bpp", {"BLT": 1, "BPPV": 16, "X": 3, "Y": 1, "WD": 19, "HT": 1, "SX": 0, "SY": 0})]
    for nm, d in fb:
        L.append(Inst("sse2-" + nm, "C02/fillblt.c", d, simd=True, exclude=EX, models=("env_stubs.c", "x86_builtins.c"), unwind=70, objbits=12,
                      timeout=2400 if tier == "thorough" else 900, checks=["--bounds-check", "--pointer-check"],
                      desc={"what": "fill/blt through the chain with the SSE2 level: identical to the C chain / exactly the rectangle copied, or FALSE with nothing changed; contents symbolic, geometry concrete"}))
    if tier == "thorough":
        EXA = ("pixman-implementation.c", "pixman-ssse3.c", "pixman-mmx.c")
        for n, d in (("sse2_composite_add_8_8", TPL["fast_composite_add_8_8"]), ("sse2_composite_over_8888_8888", TPL["fast_composite_over_8888_8888"]),
                     ("sse2_composite_over_8888_0565", TPL["fast_composite_over_8888_0565"]), ("sse2_composite_add_8888_8888", TPL["fast_composite_add_8888_8888"]),
                     ("sse2_composite_copy_area", TPL["fast_composite_src_memcpy"])):
            dd = dict(d); dd.update({"EXPECT_FUNC": None, "VP_REL": None, "WITH_SSE2": None, "W": 5})
            L.append(Inst("diff-" + n, "C02/diff.c", dd, simd=True, exclude=EXA, models=("env_stubs.c", "x86_builtins.c"), unwind=20,
                          unwindset=API_UNWINDSET + ("memcmp.0:40",), objbits=12, timeout=3000,
                          desc={"what": "request served by this SSE2 composite routine under noop->sse2->fast->general vs general alone: bit-identical destination; 5x2 images, pixels symbolic", "routine": n}))
    return L


def PRECHECK(ctx):
    """Validate the x86 builtin models against the CPU (native build of the same model file under renamed symbols)."""
    import os, subprocess
    from vp import core
    exe = os.path.join(ctx.work, "validate_builtins")
    r = subprocess.run(["gcc", "-O1", "-msse2", "-w", os.path.join(core.MODELS, "validate_builtins.c"), "-I" + core.MODELS, "-o", exe], capture_output=True, text=True)
    if r.returncode != 0:
        return False, "validate_builtins build failed: " + r.stderr[-500:]
    r = subprocess.run([exe, str(ctx.seed or 1)], capture_output=True, text=True)
    return r.returncode == 0, r.stdout.strip()[-300:]


TEXT = ("Translation validation by bounded model checking: each selected routine of the C fast-path implementation is compared with the general "
        "(fetch-combine-store) implementation on the same symbolic request - both chains built with the real constructors, the thread-local "
        "fast-path cache cleared in between, a reachability assertion confirming that the fast-path level served the request - and the "
        "destination buffers must be bit-identical including row padding; implementation selection is checked separately: PIXMAN_DISABLE parsing "
        "for a symbolic environment string, and chain assembly incl. 'wholeops' for a menu of settings.")
NOTE = ("SSE2: the 22 unified/component-alpha combiners are reachable through models of the 20 GCC builtins pixman-sse2.c needs "
        "(models/x86_builtins.c, compared with the real instructions on 20000 vectors at the start of every run); 2 combiners at quick tier, 7 at "
        "thorough; masked OVER-class combiners do not finish in 900 s. sse2_fill/sse2_blt are compared with the C chain / the rectangle semantics (concrete geometry); five SSE2 composite routines run through the API differential at thorough tier (9-14 min each). "
        "SSE2 scaling/bilinear routines, the SSSE3 and MMX (inline asm) levels and CPU detection are NOT encoded - that part of the property is not claimed. C levels: 3x2 images, 8 routine templates.")
RULE = "C02 program = one fast-path routine compared against the general path; plus configuration instances."
BOUNDS = {"images": "3x2 with padding", "routines": "7 of ~150 c_fast_paths entries (2 at quick tier)"}
OUTSIDE = ["most SSE2 composite and all SSE2 scaling routines; pixman-ssse3.c; pixman-mmx.c (inline asm)", "CPU feature detection (cpuid)", "fast-path table entries without a template", "widths beyond 3 pixels"]
ASSUMPTIONS = ["allocation succeeds", "getenv stub"]
