from vp.core import Inst, API_UNWINDSET

LEVEL = "translation_validation"
TPL = {
    "fast_composite_add_8_8": {"OP": 12, "SFMT": "PIXMAN_a8", "DFMT": "PIXMAN_a8", "SRC_SOLID": 0},
    "fast_composite_over_8888_0565": {"OP": 3, "SFMT": "PIXMAN_a8r8g8b8", "DFMT": "PIXMAN_r5g6b5", "SRC_SOLID": 0},
    "fast_composite_over_8888_8888": {"OP": 3, "SFMT": "PIXMAN_a8r8g8b8", "DFMT": "PIXMAN_a8r8g8b8", "SRC_SOLID": 0},
    "fast_composite_src_memcpy": {"OP": 1, "SFMT": "PIXMAN_a8r8g8b8", "DFMT": "PIXMAN_a8r8g8b8", "SRC_SOLID": 0},
    "fast_composite_add_8888_8888": {"OP": 12, "SFMT": "PIXMAN_a8r8g8b8", "DFMT": "PIXMAN_a8r8g8b8", "SRC_SOLID": 0},
    "fast_composite_over_8888_8_8888": {"OP": 3, "SFMT": "PIXMAN_a8r8g8b8", "MFMT": "PIXMAN_a8", "MASK_CA": 0, "DFMT": "PIXMAN_a8r8g8b8", "SRC_SOLID": 0},
    "fast_composite_scaled_nearest_8888_8888_OVER": {"OP": 3, "SFMT": "PIXMAN_a8r8g8b8", "DFMT": "PIXMAN_a8r8g8b8", "SRC_SOLID": 0, "SCALE": 32768, "SREPEAT": "PIXMAN_REPEAT_PAD"},
    "fast_composite_src_x888_8888": {"OP": 1, "SFMT": "PIXMAN_x8r8g8b8", "DFMT": "PIXMAN_a8r8g8b8", "SRC_SOLID": 0},
}
QUICK = ("fast_composite_add_8_8", "fast_composite_over_8888_0565")
ENVS = (("none", "0", 0, 0), ("fast", '"fast"', 1, 0), ("wholeops", '"wholeops"', 0, 1), ("wholeops-fast", '"wholeops fast"', 1, 1), ("junk", '"fastx sse2"', 0, 0))


def instances(tier):
    L = []
    L.append(Inst("disable-string-parsing", "C02/config.c", {"MODE": 0, "ENVLEN": 8}, link=[], unwind=12, timeout=900,
                  desc={"what": "_pixman_disabled for a SYMBOLIC PIXMAN_DISABLE string (<= 8 chars): TRUE iff the name is a space-separated token"}))
    for nm, env, fd, wo in ENVS:
        L.append(Inst("chain-" + nm, "C02/config.c", {"MODE": 1, "ENVSTR": env, "EXPECT_FAST_DISABLED": fd, "EXPECT_WHOLEOPS": wo},
                      exclude=("pixman-implementation.c",), unwind=70, objbits=12, timeout=900,
                      desc={"what": "_pixman_choose_implementation under this PIXMAN_DISABLE: noop -> [fast] -> general; wholeops empties exactly the tables above general"}))
    for n, d in TPL.items():
        if tier == "quick" and n not in QUICK:
            continue
        dd = dict(d); dd["EXPECT_FUNC"] = None; dd["VP_REL"] = None
        L.append(Inst("diff-" + n, "C02/diff.c", dd, exclude=("pixman-implementation.c",), unwind=14, unwindset=API_UNWINDSET + ("memcmp.0:40",), objbits=12, timeout=1500,
                      desc={"what": "request template served by this C fast path under chain noop->fast->general vs general alone: bit-identical destination incl. padding; all pixels symbolic", "routine": n}))
    return L


TEXT = ("Translation validation by bounded model checking: each selected routine of the C fast-path implementation is compared with the general "
        "(fetch-combine-store) implementation on the same symbolic request - both chains built with the real constructors, the thread-local "
        "fast-path cache cleared in between, a reachability assertion confirming that the fast-path level served the request - and the "
        "destination buffers must be bit-identical including row padding; implementation selection is checked separately: PIXMAN_DISABLE parsing "
        "for a symbolic environment string, and chain assembly incl. 'wholeops' for a menu of settings.")
NOTE = ("Only the portable C levels (noop, fast, general) are encoded. The MMX/SSE2/SSSE3 levels need models of ~50 x86 intrinsics (and MMX has "
        "inline assembly); they were not built in the available time, so the SIMD half of the property and pixman_blt/fill across implementations "
        "are NOT claimed. 3x2 images, 8 routine templates.")
RULE = "C02 program = one fast-path routine compared against the general path; plus configuration instances."
BOUNDS = {"images": "3x2 with padding", "routines": "8 of ~150 c_fast_paths entries (2 at quick tier)"}
OUTSIDE = ["pixman-sse2.c, pixman-ssse3.c, pixman-mmx.c (intrinsics / inline asm not modelled)", "CPU feature detection (cpuid)", "fast-path table entries without a template", "widths beyond 3 pixels"]
ASSUMPTIONS = ["allocation succeeds", "getenv stub"]
