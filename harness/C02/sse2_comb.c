/* C02-T1 (SSE2): a combiner of the real pixman-sse2.c (installed by the real
 * _pixman_implementation_create_sse2, which also initialises the mask_*
 * constants) against the portable C combiner of the same operator
 * (pixman-combine32.c through _pixman_implementation_create_general), on the
 * same symbolic pixels: bit-identical destination.  x86 intrinsics are executed
 * through models/x86_builtins.c (validated against the CPU on every run).
 * -DOP operator, -DCA component alpha, -DMASKED unified mask, -DW width (head /
 * vector body / tail structure), -DOFF start offset in pixels (16-byte
 * alignment class of the destination).                                       */
#include "vp.h"
#include <config.h>
#include "pixman-sse2.c"
#ifndef W
#define W 5
#endif
#ifndef OFF
#define OFF 0
#endif
#define N (W + OFF + 1)

void harness (void)
{
    static uint32_t s[N] __attribute__ ((aligned (16))), m[N] __attribute__ ((aligned (16)));
    static uint32_t da[N] __attribute__ ((aligned (16))), db[N] __attribute__ ((aligned (16))), d0[N];
    int i;
    for (i = 0; i < N; i++) { VP_SYM_IDX (s, i); VP_SYM_IDX (m, i); VP_SYM_IDX (d0, i); da[i] = db[i] = d0[i]; }
    pixman_implementation_t *gen = _pixman_implementation_create_general (); VP_ASSUME (gen != NULL);
    pixman_implementation_t *sse = _pixman_implementation_create_sse2 (gen); VP_ASSUME (sse != NULL);
#if CA
    VP_ASSERT (sse->combine_32_ca[OP] != gen->combine_32_ca[OP] && sse->combine_32_ca[OP] != 0, "SSE2 level installs its own component-alpha combiner for this operator");
    sse->combine_32_ca[OP] (sse, OP, da + OFF, s + OFF, m + OFF, W);
    gen->combine_32_ca[OP] (gen, OP, db + OFF, s + OFF, m + OFF, W);
#else
    VP_ASSERT (sse->combine_32[OP] != gen->combine_32[OP] && sse->combine_32[OP] != 0, "SSE2 level installs its own combiner for this operator");
    sse->combine_32[OP] (sse, OP, da + OFF, s + OFF, MASKED ? m + OFF : NULL, W);
    gen->combine_32[OP] (gen, OP, db + OFF, s + OFF, MASKED ? m + OFF : NULL, W);
#endif
    for (i = 0; i < N; i++)
#ifdef PIX
	if (i == PIX)	/* one output pixel per instance: lanes are independent, the sliced formula contains one pixel's arithmetic */
#endif
	VP_ASSERT (da[i] == db[i], "SSE2 combiner and C combiner leave bit-identical pixels (and touch nothing outside [0,w))");
    VP_END ();
}
#ifdef VP_REPLAY
int main (void) { harness (); return 0; }
#endif
