/* C03-R2: write confinement of pixman_image_composite32 (real library) on a
 * small destination with row padding and guard words.  Geometry, clip, formats
 * and operator are concrete per instance; source and destination contents are
 * symbolic.  Every BIT of the destination buffer outside
 *      request /\ destination bounds /\ destination clip
 * must be unchanged: neighbouring sub-byte pixels, row padding, guard words.
 * -DFMT dest format -DOP -DDX -DDY -DRW -DRH request, -DHAVE_DCLIP + -DCX1.. clip box */
#include "api_common.h"
#ifndef W
#define W 5
#endif
#ifndef H
#define H 2
#endif
#define BPPF ((int) PIXMAN_FORMAT_BPP (FMT))
#define SW ((W * BPPF + 31) / 32 + 1)
#define SRCW 3

void harness (void)
{
    uint32_t d[H * SW + 2], d0[H * SW + 2], s[SRCW * 2]; int i;
    for (i = 0; i < H * SW + 2; i++) { VP_SYM_IDX (d0, i); d[i] = d0[i]; }
    for (i = 0; i < SRCW * 2; i++) VP_SYM_IDX (s, i);
    pixman_image_t *dst = vp_img (FMT, W, H, d + 1, SW);
#ifdef SAMEFMT
    /* source of the destination's own format, size and stride (plain-copy fast paths, whole-width requests): its row padding is symbolic too */
    uint32_t s2[H * SW]; for (i = 0; i < H * SW; i++) VP_SYM_IDX (s2, i);
    pixman_image_t *src = vp_img (FMT, W, H, s2, SW);
#else
    pixman_image_t *src = vp_img (PIXMAN_a8r8g8b8, SRCW, 2, s, SRCW);
    pixman_image_set_repeat (src, PIXMAN_REPEAT_NORMAL);
#endif
    int x1 = DX, y1 = DY, x2 = DX + RW, y2 = DY + RH;
    if (x1 < 0) x1 = 0; if (y1 < 0) y1 = 0; if (x2 > W) x2 = W; if (y2 > H) y2 = H;
#ifdef HAVE_DCLIP
    { pixman_region32_t c; pixman_region32_init_rect (&c, CX1, CY1, CX2 - CX1, CY2 - CY1);
      pixman_bool_t okc = pixman_image_set_clip_region32 (dst, &c); VP_ASSUME (okc);
      if (x1 < CX1) x1 = CX1; if (y1 < CY1) y1 = CY1; if (x2 > CX2) x2 = CX2; if (y2 > CY2) y2 = CY2; }
#endif
#ifdef SAMEFMT
    pixman_image_composite32 (OP, src, NULL, dst, SRCX, SRCY, 0, 0, DX, DY, RW, RH);
#else
    pixman_image_composite32 (OP, src, NULL, dst, 1, 0, 0, 0, DX, DY, RW, RH);
#endif
    VP_ASSERT (d[0] == d0[0] && d[H * SW + 1] == d0[H * SW + 1], "guard words before/after the pixel storage unchanged");
    {
	int r, bit; VP_SYM (r); VP_SYM (bit);
	VP_ASSUME (r >= 0 && r < H && bit >= 0 && bit < SW * 32);
	int px = bit / BPPF, inside = bit < W * BPPF && px >= x1 && px < x2 && r >= y1 && r < y2;
	if (!inside)
	    VP_ASSERT ((((d[1 + r * SW + bit / 32] ^ d0[1 + r * SW + bit / 32]) >> (bit % 32)) & 1) == 0,
		       "bits outside request /\\ bounds /\\ clip unchanged (neighbouring sub-byte pixels, padding)");
    }
    VP_END ();
}
#ifdef VP_REPLAY
int main (void) { harness (); return 0; }
#endif
