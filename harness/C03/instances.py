from vp.core import Inst, API_UNWINDSET

LEVEL = "model_checking"
LINK = ["pixman-region32.c", "pixman-utils.c", "pixman-region16.c"]


def cfg(d=0, a=0, s=0, m=0):
    return {"DCLIP": d, "DAMAP": a, "SCLIP": s, "MCLIP": m, "HASMASK": 1 if m else 0}


def instances(tier):
    L = []
    singles = {"none": cfg(), "destclip": cfg(d=1), "dest-alphamap": cfg(a=1), "srcclip": cfg(s=1), "maskclip": cfg(m=1)}
    for n, d in singles.items():
        L.append(Inst("region-" + n, "C03/region.c", d, link=LINK, unwind=4,
                      desc={"what": "_pixman_compute_composite_region32 == request /\\ dest bounds /\\ this clip, point-wise, all geometry symbolic (|v| < 2^27); FALSE iff empty"}))
    conf = [("a1", 3, (1, 0, 3, 1), None), ("a4", 1, (-1, 1, 3, 4), None), ("r8g8b8", 3, (3, -1, 5, 2), None),
            ("a8r8g8b8", 12, (0, 0, 5, 2), (1, 0, 4, 1)), ("r5g6b5", 3, (2, 1, 9, 9), (0, 0, 3, 2))]
    if tier == "thorough-unvalidated":   # larger matrix not validated in the available time
        conf += [(f, op, g, c) for f in ("a1", "a4", "a8", "r8g8b8", "r5g6b5", "a8r8g8b8", "a1r5g5b5", "r3g3b2")
                 for op in (1, 3) for g, c in (((1, 0, 3, 1), None), ((-2, -1, 4, 2), None), ((0, 0, 5, 2), (1, 1, 3, 2)), ((4, 1, 3, 3), (0, 0, 5, 2)))]
    seen = set()
    for fmt, op, g, c in conf:
        d = {"FMT": "PIXMAN_" + fmt, "OP": op, "DX": g[0], "DY": g[1], "RW": g[2], "RH": g[3], "VP_REL": None}
        if c:
            d.update({"HAVE_DCLIP": None, "CX1": c[0], "CY1": c[1], "CX2": c[2], "CY2": c[3]})
        name = "confine-%s-op%d-%s%s" % (fmt, op, "_".join(map(str, g)), "-clip" if c else "")
        if name in seen:
            continue
        seen.add(name)
        L.append(Inst(name, "C03/confine.c", d, unwind=20, unwindset=API_UNWINDSET, objbits=12, timeout=900,
                      desc={"what": "pixman_image_composite32 changes no bit outside request /\\ bounds /\\ clip (sub-byte neighbours, padding, guard words); contents symbolic, geometry concrete", "request": g, "clip": c}))
    same = [("a8", (0, 0, 5, 2), (0, 0)), ("r8g8b8", (0, 0, 5, 2), (0, 0)), ("r5g6b5", (0, 0, 5, 2), (0, 0))]
    if tier == "thorough":
        same += [("x1r5g5b5", (0, 0, 5, 2), (0, 0)), ("a8r8g8b8", (0, 0, 5, 2), (0, 0)), ("a8", (1, 0, 4, 2), (1, 0)), ("r8g8b8", (0, 1, 5, 1), (0, 0)), ("a1", (0, 0, 5, 2), (0, 0))]
    for fmt, g, so in same:
        d = {"FMT": "PIXMAN_" + fmt, "OP": 1, "DX": g[0], "DY": g[1], "RW": g[2], "RH": g[3], "SRCX": so[0], "SRCY": so[1], "SAMEFMT": None, "VP_REL": None}
        L.append(Inst("confine-copy-%s-%s" % (fmt, "_".join(map(str, g))), "C03/confine.c", d, unwind=20, unwindset=API_UNWINDSET, objbits=12, timeout=900,
                      desc={"what": "SRC copy between two images of the same format, size and stride (plain-copy fast paths, whole-width request): destination row padding and guard words unchanged; contents and both paddings symbolic", "request": g}))
    if tier == "thorough":
        for n, d in {"destclip+srcclip": cfg(d=1, s=1)}.items():   # other pairs not validated in the available time
            L.append(Inst("region-" + n, "C03/region.c", d, link=LINK, unwind=4, timeout=3000, extra_cbmc=("--paths", "lifo"),
                          desc={"what": "two clips combined (path-wise symbolic execution: merging makes region->data symbolic and drags in the band sweep)"}))
    return L


TEXT = ("Bounded model checking: (R1) the real _pixman_compute_composite_region32 returns exactly request /\\ destination bounds /\\ clip, "
        "point-wise for a symbolic query point, with ALL geometry symbolic (request, offsets, image sizes, clip boxes, alpha-map origin, "
        "clip_sources/client_clip flags; |coordinates| < 2^27), and FALSE exactly when that set is empty - one clip kind per instance (two at "
        "thorough tier); (R2) pixman_image_composite32 on 5x2 destinations in 1/4/16/24/32-bpp formats with symbolic contents changes no bit "
        "outside the intersection: neighbouring sub-byte pixels, row padding and guard words are checked bit by bit.")
NOTE = ("Clip regions are single rectangles (multi-rectangle clips enter the region band sweep, which cannot be encoded - see C05). API-level "
        "geometry is concrete per instance (menu). Glyph and trapezoid entry points are not covered here (trapezoid span confinement is in C12, "
        "fill_boxes in C19).")
RULE = "C03 instance = region computation per clip kind | confinement (format, operator, request, clip)."
BOUNDS = {"R1": "all geometry symbolic within +-2^27, single-rectangle clips", "R2": "5x2 destination, request/clip from a menu"}
OUTSIDE = ["multi-rectangle clip regions", "alpha maps' own clip regions", "glyph entry points", "symbolic geometry at API level"]
ASSUMPTIONS = ["allocation succeeds", "clip boxes non-empty"]
