/* C03-R1: the real _pixman_compute_composite_region32 (pixman.c) on image
 * descriptions built by hand (sizes, clips, flags, alpha-map origin all
 * symbolic), request geometry symbolic, against the point-set definition:
 *   p in result  <=>  p in request /\ dest bounds /\ dest clip /\ dest alpha-map
 *                     bounds /\ (translated) source clip, mask clip when enabled
 *   returns FALSE <=> that set is empty.
 * Which clips exist is concrete per instance (-DDCLIP -DDAMAP -DSCLIP -DMCLIP
 * -DHASMASK); clip regions are single rectangles (multi-rectangle clips need
 * the region sweep, see C05).  Coordinates within +-2^27 ("int32 arithmetic
 * range" of the statement).                                                  */
#include "vp.h"
#include <config.h>
#include "pixman.c"
#define LIM (1 << 27)
#define O_IN(b, x, y) ((x) >= (b).x1 && (x) < (b).x2 && (y) >= (b).y1 && (y) < (b).y2)

static void sym_box (pixman_box32_t *b)
{
    /* filled by caller through VP_SYM_BOX; here only the validity assumption */
    VP_ASSUME (b->x1 < b->x2 && b->y1 < b->y2 && b->x1 > -LIM && b->x2 < LIM && b->y1 > -LIM && b->y2 < LIM);
}

void harness (void)
{
    static pixman_image_t src, mask, dst, amap;
    pixman_region32_t out;
    int sx, sy, mx, my, dx, dy, w, h, px, py;
    pixman_box32_t dclip, sclip, mclip;
    VP_SYM (sx); VP_SYM (sy); VP_SYM (mx); VP_SYM (my); VP_SYM (dx); VP_SYM (dy); VP_SYM (w); VP_SYM (h); VP_SYM (px); VP_SYM (py);
    VP_ASSUME (sx > -LIM && sx < LIM && sy > -LIM && sy < LIM && mx > -LIM && mx < LIM && my > -LIM && my < LIM);
    VP_ASSUME (dx > -LIM && dx < LIM && dy > -LIM && dy < LIM && w >= 0 && w < LIM && h >= 0 && h < LIM);
    src.type = mask.type = dst.type = amap.type = BITS;
    VP_SYM (dst.bits.width); VP_SYM (dst.bits.height);
    VP_ASSUME (dst.bits.width >= 1 && dst.bits.width <= 32767 && dst.bits.height >= 1 && dst.bits.height <= 32767);
    int in = px >= dx && px < dx + w && py >= dy && py < dy + h && px >= 0 && px < dst.bits.width && py >= 0 && py < dst.bits.height;
#if DCLIP
    VP_SYM_BOX (dclip); sym_box (&dclip);
    dst.common.have_clip_region = 1; dst.common.clip_region.extents = dclip; dst.common.clip_region.data = NULL;
    in = in && O_IN (dclip, px, py);
#endif
#if DAMAP
    VP_SYM (amap.bits.width); VP_SYM (amap.bits.height); VP_SYM (dst.common.alpha_origin_x); VP_SYM (dst.common.alpha_origin_y);
    VP_ASSUME (amap.bits.width >= 1 && amap.bits.width <= 32767 && amap.bits.height >= 1 && amap.bits.height <= 32767);
    VP_ASSUME (dst.common.alpha_origin_x > -32768 && dst.common.alpha_origin_x < 32768 && dst.common.alpha_origin_y > -32768 && dst.common.alpha_origin_y < 32768);
    dst.common.alpha_map = &amap.bits;
    in = in && px >= dst.common.alpha_origin_x && px < dst.common.alpha_origin_x + amap.bits.width
	    && py >= dst.common.alpha_origin_y && py < dst.common.alpha_origin_y + amap.bits.height;
#endif
#if SCLIP
    VP_SYM_BOX (sclip); sym_box (&sclip);
    src.common.have_clip_region = 1; src.common.clip_region.extents = sclip; src.common.clip_region.data = NULL;
    VP_SYM (src.common.clip_sources); VP_SYM (src.common.client_clip);
    if (src.common.clip_sources && src.common.client_clip)
	in = in && O_IN (sclip, px - (dx - sx), py - (dy - sy));	/* the source pixel that lands on p */
#endif
#if MCLIP
    VP_SYM_BOX (mclip); sym_box (&mclip);
    mask.common.have_clip_region = 1; mask.common.clip_region.extents = mclip; mask.common.clip_region.data = NULL;
    VP_SYM (mask.common.clip_sources); VP_SYM (mask.common.client_clip);
    if (mask.common.clip_sources && mask.common.client_clip)
	in = in && O_IN (mclip, px - (dx - mx), py - (dy - my));
#endif
    pixman_bool_t ok = _pixman_compute_composite_region32 (&out, &src, HASMASK ? &mask : NULL, &dst, sx, sy, mx, my, dx, dy, w, h);
    if (!ok)
	VP_ASSERT (!in, "FALSE is returned only when the intersection is empty");
    else
    {
	VP_ASSERT (out.data == NULL && out.extents.x1 < out.extents.x2 && out.extents.y1 < out.extents.y2, "TRUE comes with a non-empty single-rectangle region");
	VP_ASSERT (O_IN (out.extents, px, py) == (in != 0), "the region is exactly the intersection (membership of an arbitrary point)");
    }
    VP_END ();
}
#ifdef VP_REPLAY
int main (void) { harness (); return 0; }
#endif
