/* C04 (API): the bit-walking C fast paths (a1 mask / a1 source) never leave an
 * exactly-sized a1 image.  A solid source goes OVER a 32-bit (or 16-bit)
 * destination through a 32x2 a1 mask whose storage is exactly 2 words; the
 * request starts at mask column -DMX and is -DWD pixels wide, so that it ends
 * on the word boundary (MX + WD == 32): a word fetched "ahead" lands outside
 * the object.  -DADD11 instead ADDs an a1 source onto an a1 destination.  CBMC's
 * bounds/pointer checks are the obligations; mask bits, colour and destination
 * symbolic; geometry concrete per instance.                                     */
#include "api_common.h"
#ifndef MX
#define MX 24
#endif
#ifndef WD
#define WD 8
#endif
#ifndef DFMT
#define DFMT PIXMAN_a8r8g8b8
#endif
#define HT 2
void harness (void)
{
    uint32_t m[HT], d[HT * WD]; int i;
    for (i = 0; i < HT; i++) VP_SYM_IDX (m, i);
    for (i = 0; i < HT * WD; i++) VP_SYM_IDX (d, i);
#ifdef ADD11
    uint32_t d1[HT];
    for (i = 0; i < HT; i++) d1[i] = d[i];
    pixman_image_t *src = vp_img (PIXMAN_a1, 32, HT, m, 1), *dst = vp_img (PIXMAN_a1, 32, HT, d1, 1);
    pixman_image_composite32 (PIXMAN_OP_ADD, src, NULL, dst, MX, 0, 0, 0, MX, 0, WD, HT);
#else
    uint32_t c; VP_SYM (c);
    pixman_color_t col = { (uint16_t) ((c >> 16 & 0xff) * 257), (uint16_t) ((c >> 8 & 0xff) * 257), (uint16_t) ((c & 0xff) * 257), SOLID_ALPHA };
    pixman_image_t *src = pixman_image_create_solid_fill (&col); VP_ASSUME (src != NULL);
    pixman_image_t *msk = vp_img (PIXMAN_a1, 32, HT, m, 1), *dst = vp_img (DFMT, WD, HT, d, WD);
    pixman_image_composite32 (PIXMAN_OP_OVER, src, msk, dst, 0, 0, MX, 0, 0, 0, WD, HT);
#endif
    VP_END ();
}
#ifdef VP_REPLAY
int main (void) { harness (); return 0; }
#endif
