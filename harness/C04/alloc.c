/* C04: size arithmetic of the allocation helpers of the real pixman-utils.c and
 * of create_bits (pixman-bits-image.c) for ALL 32-bit arguments: a non-NULL
 * result implies the mathematically required size is representable and is
 * exactly what was requested from malloc; the overflow predicates are exact
 * enough never to admit an overflowing product.                             */
#include "vp.h"
#include <config.h>
#include <stdlib.h>
static size_t vp_last_request; static int vp_calls;
static void *vp_malloc (size_t n) { vp_last_request = n; vp_calls++; return (void *) 16; }
#define malloc vp_malloc
#define calloc(a, b) vp_malloc ((a) * (b))
#include "pixman-utils.c"
#undef malloc

void harness (void)
{
    unsigned a, b, c;
    VP_SYM (a); b = BVAL; c = CVAL;	/* element size / second factor concrete per instance (symbolic x symbolic products and divisions do not finish) */
    vp_calls = 0;
    void *p = pixman_malloc_ab (a, b);
    if (p) VP_ASSERT ((unsigned long long) a * b <= INT32_MAX && vp_last_request == (size_t) a * b && vp_calls == 1, "malloc_ab: exact size, no overflow");
    vp_calls = 0;
    p = pixman_malloc_abc (a, b, c);
    if (p) VP_ASSERT ((unsigned long long) a * b * c <= INT32_MAX && (unsigned long long) a * b <= INT32_MAX && vp_last_request == (size_t) a * b * c, "malloc_abc: exact size, no overflow");
    vp_calls = 0;
    p = pixman_malloc_ab_plus_c (a, b, c);
    if (p) VP_ASSERT ((unsigned long long) a * b + c <= INT32_MAX && vp_last_request == (size_t) a * b + c, "malloc_ab_plus_c: exact size, no overflow");
    if (!_pixman_multiply_overflows_int (a, b)) VP_ASSERT ((unsigned long long) a * b <= INT32_MAX, "multiply_overflows_int FALSE => product fits int");
    if (!_pixman_addition_overflows_int (a, b)) VP_ASSERT ((unsigned long long) a + b <= INT32_MAX, "addition_overflows_int FALSE => sum fits int");
    { size_t x, y = BVAL; VP_SYM (x);
      if (!_pixman_multiply_overflows_size (x, y)) VP_ASSERT ((unsigned __int128) x * y <= SIZE_MAX, "multiply_overflows_size FALSE => product fits size_t"); }
    VP_END ();
}
#ifdef VP_REPLAY
int main (void) { harness (); return 0; }
#endif
