/* C04 (API): transformed fetches never leave the source's pixel storage.
 * pixman_image_composite32 from an exactly-sized 2x2 (or 1x1 / 3x1) source with
 * transform -DMSEL (menu), filter -DFILTER, repeat -DREPEAT onto a 3x2
 * destination; request partly outside.  CBMC's bounds/pointer checks are the
 * obligations (an out-of-object read is flagged even where the neighbouring
 * memory would be mapped).  Pixels symbolic; geometry concrete per instance.   */
#include "api_common.h"
#ifndef SWID
#define SWID 2
#endif
#ifndef SHEI
#define SHEI 2
#endif
static const pixman_fixed_t mats[][9] = {
    { 65536, 0, 0,  0, 65536, 0,  0, 0, 65536 },
    { 163840, 0, -98304,  0, 32768, 49152,  0, 0, 65536 },		/* scale 2.5 x 0.5 with translation */
    { 0, -65536, 131072,  65536, 0, 0,  0, 0, 65536 },			/* rotate 90 */
    { 65536, 0, 2147418112,  0, 65536, -2147418112,  0, 0, 65536 },	/* translation at the 16.16 limit */
    { 1, 0, 0,  0, 1, 0,  0, 0, 65536 },				/* extreme down-scale */
    { 65536, 13107, 0,  -13107, 65536, 0,  6553, 0, 65536 },		/* projective */
    { 2147483647, 0, 0,  0, 2147483647, 0,  0, 0, 65536 },		/* extreme up-scale */
};
void harness (void)
{
    uint32_t s[SWID * SHEI], d[3 * 2]; int i; pixman_transform_t t;
    for (i = 0; i < SWID * SHEI; i++) VP_SYM_IDX (s, i);
    for (i = 0; i < 6; i++) VP_SYM_IDX (d, i);
    pixman_image_t *src = vp_img (PIXMAN_a8r8g8b8, SWID, SHEI, s, SWID), *dst = vp_img (PIXMAN_a8r8g8b8, 3, 2, d, 3);
    for (i = 0; i < 9; i++) t.matrix[i / 3][i % 3] = mats[MSEL][i];
    VP_ASSUME (pixman_image_set_transform (src, &t));
    VP_ASSUME (pixman_image_set_filter (src, FILTER, NULL, 0));
    pixman_image_set_repeat (src, REPEAT);
    pixman_image_composite32 (PIXMAN_OP_SRC, src, NULL, dst, -1, -1, 0, 0, 0, 0, 3, 2);
    VP_END ();
}
#ifdef VP_REPLAY
int main (void) { harness (); return 0; }
#endif
