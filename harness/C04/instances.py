from vp.core import Inst, API_UNWINDSET

LEVEL = "model_checking"


def instances(tier):
    L = []
    for b, c in ((1, 1), (4, 1), (16, 3), (36, 2), (8, 65536), (0x7fff, 0x7fff), (3, 0x10001)) if tier == "quick" else \
            [(b, c) for b in (1, 2, 3, 4, 8, 12, 16, 36, 255, 0x7fff, 0x10000, 0x7fffffff) for c in (1, 2, 4, 0x7fff, 0x10001)]:
        L.append(Inst("alloc-arith-b%x-c%x" % (b, c), "C04/alloc.c", {"BVAL": b, "CVAL": c}, link=[], unwind=3, timeout=600,
                      desc={"what": "pixman_malloc_ab/abc/ab_plus_c and the overflow predicates for every 32-bit count a: non-NULL => exact, non-overflowing size requested"}))
    for nb in (1, 4, 8):
        L.append(Inst("trap-rows-inside-image-a%d" % nb, "C04/traprows.c", {"NB": nb}, link=[], unwind=3,
                      desc={"what": "rasterize_trapezoid / add_traps: for every trapezoid (all coordinates 32-bit symbolic) and image height the sample-row range handed to the rasteriser lies inside the image"}))
    for nb, w in ((8, 3), (4, 3), (1, 40)):
        rw = (w * nb + 31) // 32 + 1
        L.append(Inst("span-memory-safety-fullrange-a%d" % nb, "C12/span.c", {"NB": nb, "W": w, "FULLRANGE": None}, link=[], unwind=3 * rw + 3 + (w if nb > 1 else 3), timeout=900,
                      checks=["--bounds-check", "--pointer-check"],
                      desc={"what": "rasterize_edges for ANY 32-bit edge x positions on a row inside the image: every access inside the pixel storage (CBMC bounds checks)"}))
    combos = [(1, "NEAREST", "NONE", 2, 2), (2, "BILINEAR", "PAD", 2, 2), (5, "BILINEAR", "REFLECT", 2, 2), (3, "NEAREST", "NORMAL", 2, 2), (6, "BILINEAR", "NONE", 1, 1), (4, "BILINEAR", "NORMAL", 3, 1)]
    if tier == "thorough":
        combos = [(m, f, r, w, h) for m in range(7) for f in ("NEAREST", "BILINEAR") for r in ("NONE", "PAD", "NORMAL", "REFLECT") for (w, h) in ((2, 2), (1, 1))]
    for m, f, r, w, h in combos:
        L.append(Inst("fetch-bounds-m%d-%s-%s-%dx%d" % (m, f, r, w, h), "C04/fetch.c",
                      {"MSEL": m, "FILTER": "PIXMAN_FILTER_" + f, "REPEAT": "PIXMAN_REPEAT_" + r, "SWID": w, "SHEI": h},
                      unwind=12, unwindset=API_UNWINDSET + ("memcmp.0:40",), objbits=12, timeout=900, checks=["--bounds-check", "--pointer-check"],
                      desc={"what": "composite32 with a transformed, filtered, repeated exactly-sized source: every read/write inside the images' storage (CBMC bounds checks)"}))
    for ux in ((1, 0x8000, 0x10000, 0x18000, 0x7fffffff) if tier == "quick" else (1, 2, 3, 0x5555, 0x8000, 0xffff, 0x10000, 0x10001, 0x18000, 0x30000, 0x1234567, 0x40000000, 0x7fffffff)):
        L.append(Inst("scaler-pad-bounds-ux%x" % ux, "C04/padbounds.c", {"UNITX": ux}, link=[], unwind=2, timeout=900,
                      desc={"what": "pad_repeat_get_scanline_bounds: for every source width, start coordinate, scanline width and pixel index the unguarded middle part samples inside the source row (unit_x concrete)"}))
    # MEASURED: a symbolic step (unit_x in 1..255, -DUNITX_SYM) gives no verdict in 200 s (division by a symbolic divisor) - unit_x stays a menu
    for ux in ((0x10000,) if tier == "quick" else (1, 3, 0x5555, 0x8000, 0xffff, 0x10000, 0x10001, 0x18000, 0x30000, 0x1234567, 0x7fffffff)):
        L.append(Inst("scaler-bilinear-zones-ux%x" % ux, "C04/padbounds.c", {"UNITX": ux, "BILINEAR": None}, link=[], unwind=2, timeout=900,
                      desc={"what": "bilinear_pad_repeat_get_scanline_bounds: five zones exact for every source width, start coordinate, width and pixel index (unit_x concrete)"}))
    a1 = [("over_n_1_8888-opaque", {"SOLID_ALPHA": "0xffff"}), ("over_n_1_8888-translucent", {"SOLID_ALPHA": "0x8000"}), ("add_1_1", {"ADD11": None})]
    if tier == "thorough":
        a1 += [("over_n_1_0565-opaque", {"SOLID_ALPHA": "0xffff", "DFMT": "PIXMAN_r5g6b5"}), ("over_n_1_0565-translucent", {"SOLID_ALPHA": "0x8000", "DFMT": "PIXMAN_r5g6b5"}),
               ("over_n_1_8888-opaque-mx0-w32", {"SOLID_ALPHA": "0xffff", "MX": 0, "WD": 32})]
    for nm, d in a1:
        L.append(Inst("a1-walk-" + nm, "C04/a1mask.c", d, unwind=2 * d.get("WD", 8) + 2, unwindset=API_UNWINDSET + ("memcmp.0:40",), objbits=12, timeout=900,
                      checks=["--bounds-check", "--pointer-check"],
                      desc={"what": "composite32 through the bit-walking C fast path with an exactly-sized 32x2 a1 mask/source, request ending on the word boundary: every read/write inside the images' storage"}))
    return L


TEXT = ("Bounded model checking with CBMC's memory-safety instrumentation (an out-of-object access is flagged even where neighbouring memory "
        "would be mapped): (1) pixman_rasterize_trapezoid / pixman_add_traps hand only in-image sample rows to the rasteriser for EVERY "
        "trapezoid (all coordinates 32-bit symbolic) and image height - this is the obligation that exposed the floor_y saturation bug; "
        "(2) rasterize_edges_1/4/8 stay inside the pixel storage for ANY 32-bit edge positions; (3) the allocation-size helpers never request "
        "an overflowed size, for every 32-bit count; (4) transformed, filtered, repeated fetches through pixman_image_composite32 from "
        "exactly-sized sources stay inside the storage (transform/filter/repeat menus, pixels symbolic); (5) the bit-walking a1 fast paths "
        "(over_n_1_8888, over_n_1_0565, add_1_1) on an exactly-sized a1 image with the request ending on the word boundary; (6) the scanline split of the nearest/bilinear scalers "
        "(pad_repeat_get_scanline_bounds, bilinear_pad_repeat_get_scanline_bounds): for every source width, start coordinate, scanline width and pixel index "
        "the zones read without a bounds test sample inside the source row (unit_x from a menu). Bounds checks are also on in the "
        "C01/C03/C10/C12/C19 harnesses.")
NOTE = ("The COVER_CLIP licence (analyze_extent vs. fetcher arithmetic) with symbolic transforms is not decided (32x32 multipliers, see C11); "
        "API-level geometry and transforms are concrete menus; SIMD paths are not encoded; images are at most 3x2.")
RULE = "C04 instance = trapezoid row range | span safety | allocation arithmetic | API fetch (transform, filter, repeat, source size) | a1 fast-path walk."
BOUNDS = {"trapezoids": "all 32-bit coordinates, heights 1..32767", "spans": "any 32-bit edge x", "alloc": "count 32-bit symbolic, element size from menu", "fetch": "menu of 7 transforms"}
OUTSIDE = ["symbolic transforms (COVER_CLIP analysis)", "SIMD fast paths", "images larger than 3x2 at API level", "negative strides"]
ASSUMPTIONS = ["images described truthfully (buffers exactly height*stride)"]
