/* C04/C02: pad_repeat_get_scanline_bounds (pixman-inlines.h), the split the
 * nearest-neighbour scalers of pixman-fast-path.c (and the SIMD scalers) use
 * for NONE/PAD repeat: a scanline of `width` destination pixels starting at
 * source coordinate vx with step unit_x is cut into left padding, a middle
 * part and right padding.  The middle part is read from the source row
 * WITHOUT any bounds test, so the property needs, for every pixel index i:
 *   i <  left_pad                  =>  vx + i*unit_x <  0
 *   left_pad <= i < left_pad+width'=>  0 <= vx + i*unit_x < W<<16   (inside the source)
 *   i >= left_pad+width'           =>  vx + i*unit_x >= W<<16
 * and left_pad + width' + right_pad == width, all three >= 0.
 * Symbolic: source width W (1..32767 as pixman_image_create_bits admits for
 * the fixed-point pipeline), vx (any 32-bit), width (0..32767), pixel index i.
 * Concrete per instance: unit_x > 0 (-DUNITX), because a division by a
 * symbolic divisor is out of reach for the SAT back ends. */
#include "vp.h"
#include <config.h>
#include "pixman-private.h"
#include "pixman-inlines.h"

void harness (void)
{
    int32_t W, width, width0, left_pad, right_pad, i;
    pixman_fixed_t vx, unit_x = UNITX;
#ifdef UNITX_SYM
    VP_SYM (unit_x); VP_ASSUME (unit_x >= 1 && unit_x <= UNITX);	/* symbolic step up to the bound */
#endif
    VP_SYM (W); VP_SYM (vx); VP_SYM (width); VP_SYM (i);
    VP_ASSUME (W >= 1 && W <= 32767);
    VP_ASSUME (width >= 0 && width <= 32767);
    width0 = width;
#ifdef BILINEAR
    {	/* bilinear scalers: five zones; in the middle zone BOTH taps (x and x+1) are read unguarded */
	int32_t left_tz, right_tz;
	VP_ASSUME (vx <= INT32_MAX - pixman_fixed_1);	/* callers: vx + 1.0 representable */
	bilinear_pad_repeat_get_scanline_bounds (W, vx, unit_x, &left_pad, &left_tz, &width, &right_tz, &right_pad);
	VP_ASSERT (left_pad >= 0 && left_tz >= 0 && width >= 0 && right_tz >= 0 && right_pad >= 0, "the five zones are non-negative");
	VP_ASSERT ((int64_t) left_pad + left_tz + width + right_tz + right_pad == width0, "the five zones add up to the requested width");
	VP_ASSUME (i >= 0 && i < width0);
	int64_t pos = (int64_t) vx + (int64_t) i * unit_x, max_vx = (int64_t) W << 16;
	if (i < left_pad)
	    VP_ASSERT (pos + pixman_fixed_1 < 0, "left padding: both taps left of the source");
	else if (i < left_pad + left_tz)
	    VP_ASSERT (pos < 0 && pos + pixman_fixed_1 >= 0, "left transition zone: only the right tap inside");
	else if (i < left_pad + left_tz + width)
	    VP_ASSERT (pos >= 0 && pos + pixman_fixed_1 < max_vx, "middle zone: both taps inside the source row");
	else if (i < left_pad + left_tz + width + right_tz)
	    VP_ASSERT (pos < max_vx && pos + pixman_fixed_1 >= max_vx, "right transition zone: only the left tap inside");
	else
	    VP_ASSERT (pos >= max_vx, "right padding: both taps right of the source");
	VP_END ();
	return;
    }
#endif
    pad_repeat_get_scanline_bounds (W, vx, unit_x, &width, &left_pad, &right_pad);
    VP_ASSERT (left_pad >= 0 && width >= 0 && right_pad >= 0, "the three parts are non-negative");
    VP_ASSERT ((int64_t) left_pad + width + right_pad == width0, "the three parts add up to the requested width");
    VP_ASSUME (i >= 0 && i < width0);
    {
	int64_t pos = (int64_t) vx + (int64_t) i * unit_x;
	int64_t max_vx = (int64_t) W << 16;
	if (i < left_pad)
	    VP_ASSERT (pos < 0, "left padding only covers pixels left of the source");
	else if (i < left_pad + width)
	    VP_ASSERT (pos >= 0 && pos < max_vx, "every pixel of the middle part samples inside the source row");
	else
	    VP_ASSERT (pos >= max_vx, "right padding only covers pixels right of the source");
    }
    VP_END ();
}
#ifdef VP_REPLAY
int main (void) { harness (); return 0; }
#endif
