/* C04 (+C12): the real pixman_rasterize_trapezoid / pixman_add_traps
 * (pixman-trap.c) hand to the rasteriser only sample rows that lie inside the
 * image, for EVERY trapezoid (all coordinates full 32-bit), every image height
 * and depth 1/4/8 - the rasteriser itself is replaced by a stub that records
 * and checks the row range (its memory safety for rows inside the image is
 * checked separately on the real rasterize_edges, see span instances).       */
#include "vp.h"
#include <config.h>
#include "pixman-trap.c"
static pixman_image_t img;
static int vp_called;
void pixman_rasterize_edges (pixman_image_t *image, pixman_edge_t *l, pixman_edge_t *r, pixman_fixed_t t, pixman_fixed_t b)
{
    vp_called++;
    VP_ASSERT (t <= b, "top row not below bottom row");
    VP_ASSERT (pixman_fixed_to_int (t) >= 0 && pixman_fixed_to_int (b) < image->bits.height, "sample rows handed to the rasteriser lie inside the image");
}
void _pixman_image_validate (pixman_image_t *image) { (void) image; }

void harness (void)
{
    pixman_trapezoid_t tr; pixman_trap_t tp; int h;
    VP_SYM (tr.top); VP_SYM (tr.bottom);
    VP_SYM (tr.left.p1.x); VP_SYM (tr.left.p1.y); VP_SYM (tr.left.p2.x); VP_SYM (tr.left.p2.y);
    VP_SYM (tr.right.p1.x); VP_SYM (tr.right.p1.y); VP_SYM (tr.right.p2.x); VP_SYM (tr.right.p2.y);
    VP_SYM (h); VP_ASSUME (h >= 1 && h <= 32767);
    img.type = BITS; img.bits.format = NB == 1 ? PIXMAN_a1 : NB == 4 ? PIXMAN_a4 : PIXMAN_a8; img.bits.width = 4; img.bits.height = h;
    pixman_rasterize_trapezoid (&img, &tr, 0, 0);
    VP_SYM (tp.top.y); VP_SYM (tp.top.l); VP_SYM (tp.top.r); VP_SYM (tp.bot.y); VP_SYM (tp.bot.l); VP_SYM (tp.bot.r);
    pixman_add_traps (&img, 0, 0, 1, &tp);
    VP_END ();
}
#ifdef VP_REPLAY
int main (void) { harness (); return 0; }
#endif
