/* C05/C06 band level: the overlap callbacks of the band sweep (union_o,
 * intersect_o, subtract_o), append_non_o, coalesce and set_extents of the real
 * pixman-region.c, on ARBITRARY band contents in harness-owned storage that is
 * pre-sized so that NEWRECT never allocates.
 * -DCB 0 union_o 1 intersect_o 2 subtract_o 3 coalesce 4 set_extents 5 append_non_o
 * -DN1 -DN2 rectangles per band (concrete)                                          */
/* The band callbacks may only allocate when the output is full; the harness
 * pre-sizes the output, so any allocation is itself a failed obligation. */
#include "vp.h"
#include <stdlib.h>
static void *vp_no_alloc (void) { VP_ASSERT (0, "no allocation expected: output storage is pre-sized"); return 0; }
#define malloc(n) vp_no_alloc ()
#define realloc(p, n) vp_no_alloc ()
#include "region_common.h"
#undef malloc
#undef realloc
#ifndef N1
#define N1 2
#endif
#ifndef N2
#define N2 2
#endif
#define CAP (N1 + N2 + 2)
typedef struct { region_data_type_t hdr; box_type_t boxes[CAP]; } big_store_t;

/* a band: n boxes sharing y1<y2, sorted with strict gaps */
static void assume_band (const box_type_t *b, int n, int y1, int y2)
{
    int i;
    for (i = 0; i < n; i++)
    {
	VP_ASSUME (b[i].y1 == y1 && b[i].y2 == y2 && b[i].x1 < b[i].x2);
	if (i) VP_ASSUME (b[i - 1].x2 < b[i].x1);
    }
}
static int span_member (const box_type_t *b, int n, long x)
{
    int i, r = 0;
    for (i = 0; i < n; i++) if (x >= b[i].x1 && x < b[i].x2) r = 1;
    return r;
}

void harness (void)
{
    big_store_t st;
    region_type_t R;
    box_type_t a[N1 ? N1 : 1], b[N2 ? N2 : 1];
    int y1, y2, i; long px;
    VP_SYM (y1); VP_SYM (y2); VP_SYM (px);
    VP_ASSUME (y1 < y2);
    VP_ASSUME (y1 >= COORD_MIN && y2 <= COORD_MAX && px >= COORD_MIN && px <= COORD_MAX);
    for (i = 0; i < N1; i++) VP_SYM_BOX_IDX (a, i);
    for (i = 0; i < N2; i++) VP_SYM_BOX_IDX (b, i);
    st.hdr.size = CAP; st.hdr.numRects = 0;
    R.data = &st.hdr;
    R.extents.x1 = R.extents.y1 = R.extents.x2 = R.extents.y2 = 0;
#if CB <= 2
    /* the sweep hands the callbacks two bands that overlap vertically; their
     * own y extents are irrelevant (y1,y2 are passed), x structure matters */
    { int ya1, ya2, yb1, yb2; VP_SYM (ya1); VP_SYM (ya2); VP_SYM (yb1); VP_SYM (yb2);
      VP_ASSUME (ya1 < ya2 && yb1 < yb2);
      assume_band (a, N1, ya1, ya2); assume_band (b, N2, yb1, yb2); }
    pixman_bool_t ok;
#if CB == 0
    ok = pixman_region_union_o (&R, a, a + N1, b, b + N2, y1, y2);
    int want = span_member (a, N1, px) || span_member (b, N2, px);
#elif CB == 1
    ok = pixman_region_intersect_o (&R, a, a + N1, b, b + N2, y1, y2);
    int want = span_member (a, N1, px) && span_member (b, N2, px);
#else
    ok = pixman_region_subtract_o (&R, a, a + N1, b, b + N2, y1, y2);
    int want = span_member (a, N1, px) && !span_member (b, N2, px);
#endif
    VP_ASSERT (ok, "callback reports success");
    int n = st.hdr.numRects;
    VP_ASSERT (n >= 0 && n <= N1 + N2 + 1, "rectangle count within capacity");
    VP_ASSERT (span_member (st.boxes, n, px) == want, "output band covers exactly the x positions set algebra requires");
    for (i = 0; i < CAP; i++)
	if (i < n)
	{
	    VP_ASSERT (st.boxes[i].y1 == y1 && st.boxes[i].y2 == y2 && st.boxes[i].x1 < st.boxes[i].x2, "output rectangles non-empty with the band's vertical extent");
	    if (i) VP_ASSERT (st.boxes[i - 1].x2 < st.boxes[i].x1, "output band sorted with strict gaps (maximal spans)");
	}
#elif CB == 3
    /* coalesce: previous band a (N1 rects) followed by current band b (N2 == N1 rects) */
    { int ya1, ya2, yb1, yb2; VP_SYM (ya1); VP_SYM (ya2); VP_SYM (yb1); VP_SYM (yb2);
      VP_ASSUME (ya1 < ya2 && yb1 < yb2 && ya2 <= yb1);
      assume_band (a, N1, ya1, ya2); assume_band (b, N2, yb1, yb2);
      for (i = 0; i < N1; i++) st.boxes[i] = a[i];
      for (i = 0; i < N2; i++) st.boxes[N1 + i] = b[i];
      st.hdr.numRects = N1 + N2;
      long py; VP_SYM (py);
      int before = o_member (st.boxes, N1 + N2, px, py);
      int prev = 0, cur = N1;
      COALESCE ((&R), prev, cur);
      int n = st.hdr.numRects;
      VP_ASSERT (n == N1 + N2 || n == N1, "coalesce keeps or merges the band");
      VP_ASSERT (o_member (st.boxes, n, px, py) == before, "coalesce preserves the point set");
      int same = (N1 == N2) && ya2 == yb1;
      for (i = 0; i < N1 && i < N2; i++) if (a[i].x1 != b[i].x1 || a[i].x2 != b[i].x2) same = 0;
      VP_ASSERT ((n == N1 && N2 > 0) == (same && N2 > 0), "bands merged exactly when adjacent with identical spans");
      VP_ASSERT (prev == (n == N1 + N2 ? N1 : 0), "returned previous-band index"); }
#elif CB == 4
    /* set_extents on an arbitrary canonical list */
    { box_type_t c[3]; for (i = 0; i < 3; i++) VP_SYM_BOX_IDX (c, i);
      box_type_t e; e.x1 = c[0].x1; e.x2 = c[0].x2; e.y1 = c[0].y1; e.y2 = c[2].y2;
      for (i = 1; i < 3; i++) { if (c[i].x1 < e.x1) e.x1 = c[i].x1; if (c[i].x2 > e.x2) e.x2 = c[i].x2; }
      VP_ASSUME (o_canonical (&e, c, 3));
      for (i = 0; i < 3; i++) st.boxes[i] = c[i];
      st.hdr.numRects = 3;
      pixman_set_extents (&R);
      VP_ASSERT (R.extents.x1 == e.x1 && R.extents.x2 == e.x2 && R.extents.y1 == e.y1 && R.extents.y2 == e.y2, "extents are the tight bounding box"); }
#elif CB == 5
    { int ya1, ya2; VP_SYM (ya1); VP_SYM (ya2); VP_ASSUME (ya1 < ya2);
      assume_band (a, N1, ya1, ya2);
      pixman_bool_t ok = pixman_region_append_non_o (&R, a, a + N1, y1, y2);
      VP_ASSERT (ok && st.hdr.numRects == N1, "append_non_o appends every rectangle");
      for (i = 0; i < N1; i++)
	  VP_ASSERT (st.boxes[i].x1 == a[i].x1 && st.boxes[i].x2 == a[i].x2 && st.boxes[i].y1 == y1 && st.boxes[i].y2 == y2, "append_non_o clips to the band vertically, keeps x"); }
#endif
    VP_END ();
}
#ifdef VP_REPLAY
int main (void) { harness (); return 0; }
#endif
