from vp.core import Inst

LEVEL = "model_checking"


def instances(tier):
    L = []

    def CB(name, d, unwind, **k):
        L.append(Inst(name, "C05/callbacks.c", d, link=[], unwind=unwind, timeout=1200 if tier == "thorough" else 900, **k))

    def TR(name, d, **k):
        L.append(Inst(name, "C05/trivial.c", d, link=[], unwind=6, timeout=1200 if tier == "thorough" else 900, **k))
    cbname = {0: "union_o", 1: "intersect_o", 2: "subtract_o"}
    pairs = ((1, 1), (2, 1), (2, 2)) if tier == "quick" else ((1, 1), (1, 2), (2, 1), (2, 2), (3, 2), (2, 3), (3, 3))
    for bits in (32, 16):
        for cb in (0, 1, 2):
            for n1, n2 in pairs:
                if bits == 16 and tier == "quick" and (n1, n2) != (2, 2):
                    continue
                CB("band-%s-%d-%d-r%d" % (cbname[cb], n1, n2, bits), {"CB": cb, "N1": n1, "N2": n2, "RBITS": bits}, n1 + n2 + 3,
                   desc={"what": "overlap callback of the band sweep on arbitrary bands: output spans == set op of input spans, sorted, maximal"})
        CB("band-append_non_o-3-r%d" % bits, {"CB": 5, "N1": 3, "N2": 0, "RBITS": bits}, 7,
           desc={"what": "append_non_o copies the band clipped vertically"})
        # shortcut paths of the public API
        for al in (0, 1, 2):
            if bits == 16 and al:
                continue
            TR("intersect-1-1-alias%d-r%d" % (al, bits), {"CASE": 0, "NA": 1, "NB": 1, "ALIAS": al, "RBITS": bits},
               desc={"what": "intersect of two single rectangles (all relative positions), result aliasing"})
        if bits == 16 and tier == "quick":
            TR("rect-and-inits-r16", {"CASE": 5, "NA": 1, "RBITS": 16}, desc={"what": "intersect_rect, init_rect, init_with_extents"})
            continue
        TR("intersect-empty-3-r%d" % bits, {"CASE": 0, "NA": 0, "NB": 3, "RBITS": bits}, desc={"what": "intersect with empty operand"})
        TR("union-empty-3-r%d" % bits, {"CASE": 1, "NA": 0, "NB": 3, "RBITS": bits}, desc={"what": "union with empty first operand -> copy"})
        TR("union-2-empty-alias1-r%d" % bits, {"CASE": 1, "NA": 2, "NB": 0, "ALIAS": 1, "RBITS": bits}, desc={"what": "union with empty second operand, result == first"})
        TR("subtract-3-empty-r%d" % bits, {"CASE": 2, "NA": 3, "NB": 0, "RBITS": bits}, desc={"what": "subtract empty -> copy"})
        TR("subtract-empty-2-r%d" % bits, {"CASE": 2, "NA": 0, "NB": 2, "RBITS": bits}, desc={"what": "subtract from empty"})
        TR("same-operand-1-r%d" % bits, {"CASE": 3, "NA": 1, "RBITS": bits}, desc={"what": "union/intersect/subtract (A, A)"})
        TR("inverse-copy-reset-clear-3-r%d" % bits, {"CASE": 4, "NA": 3, "NB": 0, "RBITS": bits}, desc={"what": "inverse of empty, copy, reset, clear"})
        TR("union_rect-degenerate-r%d" % bits, {"CASE": 7, "NA": 2, "NB": 1, "RBITS": bits, "ZW": 0, "ZH": 5}, desc={"what": "union_rect with an empty rectangle copies the source into a destination holding stale content"})
        TR("rect-and-inits-r%d" % bits, {"CASE": 5, "NA": 1, "RBITS": bits}, desc={"what": "intersect_rect, init_rect, init_with_extents"})
    if tier == "thorough":
        for al in (1, 2):
            TR("intersect-1-1-alias%d-r16" % al, {"CASE": 0, "NA": 1, "NB": 1, "ALIAS": al, "RBITS": 16}, desc={"what": "intersect singles, aliasing"})
    return L


TEXT = ("Bounded model checking of the real pixman-region.c (both the 16- and the 32-bit instantiation) on ARBITRARY canonical operands "
        "with full-width symbolic coordinates: (a) the three overlap callbacks that do the set algebra inside the band sweep "
        "(union_o, intersect_o, subtract_o) and append_non_o produce exactly the x-spans set algebra requires, sorted and maximal, for "
        "bands of up to 3+3 rectangles; (b) every public operation on the paths that do not enter the general sweep (trivial-case "
        "shortcuts, copy, reset, clear, init_rect, init_with_extents, intersect_rect, inverse of empty) returns TRUE, the exact point "
        "set (symbolic query point) and a canonical result, for all aliasing patterns tried.")
NOTE = ("The sweep driver pixman_op itself (band pairing, coalescing calls, result normalisation) and validate()/init_rects with >1 "
        "rectangle could not be encoded: symbolic execution of pixman_op does not finish or exhausts 20 GB even for 1+1 rectangles with a "
        "typed pool allocator (probes in DESIGN.md section 9); that part of the property is NOT claimed. Allocation in the region unit is "
        "routed to a pre-sized pool (allocator stub; realloc grows in place).")
RULE = "C05 instance = (callback | API shortcut case) x rectangle counts x aliasing x 16/32 bit."
BOUNDS = {"rectangles": "<= 3 per band / operand", "coordinates": "full 16/32-bit range"}
OUTSIDE = ["pixman_op band sweep driver on general operands (not encodable: symex/memory blow-up)", "validate() / init_rects with more than one non-degenerate rectangle",
           "union_rect on non-empty regions (enters pixman_op)", "operands with more than 3 rectangles"]
ASSUMPTIONS = ["operands are canonical (oracle predicate)", "intersect_rect/init_rect: width, height >= 1 (intersect_rect does not validate a degenerate rectangle and then yields a degenerate single-rectangle region: point set right, form not canonical; treated as caller error)", "inverse: non-degenerate box", "allocator stub: pre-sized pool, realloc in place, free no-op"]
