from vp.core import Inst

LEVEL = "model_checking"


def instances(tier):
    L = []

    def CB(name, d, unwind, **k):
        L.append(Inst(name, "C05/callbacks.c", d, link=[], unwind=unwind, timeout=1200 if tier == "thorough" else 900, **k))

    def TR(name, d, **k):
        L.append(Inst(name, "C05/trivial.c", d, link=[], unwind=6, timeout=1200 if tier == "thorough" else 900, **k))
    cbname = {0: "union_o", 1: "intersect_o", 2: "subtract_o"}
    pairs = ((1, 1), (2, 1), (2, 2)) if tier == "quick" else ((1, 1), (1, 2), (2, 1), (2, 2), (3, 2), (2, 3), (3, 3))
    for bits in (32, 16):
        for cb in (0, 1, 2):
            for n1, n2 in pairs:
                if bits == 16 and tier == "quick" and (n1, n2) != (2, 2):
                    continue
                CB("band-%s-%d-%d-r%d" % (cbname[cb], n1, n2, bits), {"CB": cb, "N1": n1, "N2": n2, "RBITS": bits}, n1 + n2 + 3,
                   desc={"what": "overlap callback of the band sweep on arbitrary bands: output spans == set op of input spans, sorted, maximal"})
        CB("band-append_non_o-3-r%d" % bits, {"CB": 5, "N1": 3, "N2": 0, "RBITS": bits}, 7,
           desc={"what": "append_non_o copies the band clipped vertically"})
        # shortcut paths of the public API
        for al in (0, 1, 2):
            if bits == 16 and al:
                continue
            TR("intersect-1-1-alias%d-r%d" % (al, bits), {"CASE": 0, "NA": 1, "NB": 1, "ALIAS": al, "RBITS": bits},
               desc={"what": "intersect of two single rectangles (all relative positions), result aliasing"})
        if bits == 16 and tier == "quick":
            TR("rect-and-inits-r16", {"CASE": 5, "NA": 1, "RBITS": 16}, desc={"what": "intersect_rect, init_rect, init_with_extents"})
            continue
        TR("intersect-empty-3-r%d" % bits, {"CASE": 0, "NA": 0, "NB": 3, "RBITS": bits}, desc={"what": "intersect with empty operand"})
        TR("union-empty-3-r%d" % bits, {"CASE": 1, "NA": 0, "NB": 3, "RBITS": bits}, desc={"what": "union with empty first operand -> copy"})
        TR("union-2-empty-alias1-r%d" % bits, {"CASE": 1, "NA": 2, "NB": 0, "ALIAS": 1, "RBITS": bits}, desc={"what": "union with empty second operand, result == first"})
        TR("subtract-3-empty-r%d" % bits, {"CASE": 2, "NA": 3, "NB": 0, "RBITS": bits}, desc={"what": "subtract empty -> copy"})
        TR("subtract-empty-2-r%d" % bits, {"CASE": 2, "NA": 0, "NB": 2, "RBITS": bits}, desc={"what": "subtract from empty"})
        TR("same-operand-1-r%d" % bits, {"CASE": 3, "NA": 1, "RBITS": bits}, desc={"what": "union/intersect/subtract (A, A)"})
        TR("inverse-copy-reset-clear-3-r%d" % bits, {"CASE": 4, "NA": 3, "NB": 0, "RBITS": bits}, desc={"what": "inverse of empty, copy, reset, clear"})
        TR("union_rect-degenerate-r%d" % bits, {"CASE": 7, "NA": 2, "NB": 1, "RBITS": bits, "ZW": 0, "ZH": 5}, desc={"what": "union_rect with an empty rectangle copies the source into a destination holding stale content"})
        TR("rect-and-inits-r%d" % bits, {"CASE": 5, "NA": 1, "RBITS": bits}, desc={"what": "intersect_rect, init_rect, init_with_extents"})
    L.extend(shortcut_instances(tier))
    L.extend(sweep_instances(tier, "C05"))
    if tier == "thorough":
        for al in (1, 2):
            TR("intersect-1-1-alias%d-r16" % al, {"CASE": 0, "NA": 1, "NB": 1, "ALIAS": al, "RBITS": 16}, desc={"what": "intersect singles, aliasing"})
    return L


# band layouts: one (y1, y2) pair per rectangle; equal pairs form a band
LAYOUTS = {
    "1": [(0, 4)],
    "2h": [(0, 4), (0, 4)],                       # one band, two rectangles
    "2v": [(0, 2), (2, 5)],                       # two abutting bands
    "2g": [(0, 2), (3, 5)],                       # two bands with a gap
    "3a": [(0, 2), (0, 2), (2, 5)],
    "3b": [(1, 3), (3, 6), (3, 6)],
    "3v": [(0, 1), (1, 3), (4, 6)],
    "4a": [(0, 2), (0, 2), (2, 5), (2, 5)],
    "1m": [(1, 3)],
    "1l": [(2, 8)],
}
OPN = {0: "union", 1: "intersect", 2: "subtract", 3: "inverse"}


def sweep_inst(name, op, la, lb, alias=0, bits=32, failk=None, timeout=900, **k):
    ya, yb = LAYOUTS[la], LAYOUTS[lb]
    d = {"OPSEL": op, "NA": len(ya), "NB": len(yb), "ALIAS": alias, "RBITS": bits,
         "AY": ",".join("%d,%d" % p for p in ya), "BY": ",".join("%d,%d" % p for p in yb)}
    if failk:
        d["FAILK"] = failk
    return Inst(name, "C05/sweep.c", d, link=[], unwind=12, timeout=timeout,
                desc={"what": "pixman_op band sweep via %s: concrete band structure A=%s B=%s, all x coordinates symbolic (full width), alias=%d" % (OPN[op], ya, yb, alias)}, **k)


def shortcut_instances(tier, ops=(0, 1, 2, 3), prefix="around-sweep"):
    L = []
    shapes = ((1, 2, 0), (2, 1, 0), (2, 2, 2), (1, 2, 1)) if tier == "quick" else \
        tuple((na, nb, al) for na in (1, 2, 3) for nb in (1, 2, 3) for al in (0, 1, 2))
    for op in ops:
        for na, nb, al in shapes:
            if op == 3 and (na != 1 or al == 1):
                continue
            for bits in (32, 16):
                if bits == 16 and (tier == "quick" and (na, nb, al) != (1, 2, 0)):
                    continue
                L.append(Inst("%s-%s-%d-%d-alias%d-r%d" % (prefix, OPN[op], na, nb, al, bits), "C05/shortcuts.c",
                              {"OPSEL": op, "NA": na, "NB": nb, "ALIAS": al, "RBITS": bits}, link=[], unwind=6, timeout=900,
                              replace_calls=("pixman_op:vp_op_stub",),
                              desc={"what": "%s on arbitrary canonical operands (%d and %d rectangles, full-width symbolic): every return that does not enter the band sweep is exact and canonical; sweep entered with the right arguments; extents post-processing right (pixman_op replaced by a contract stub)" % (OPN[op], na, nb)}))
    return L


def sweep_instances(tier, pid):
    L = []
    # MEASURED: even with the band structure concrete (only x symbolic) every one of these ran out of 12 GB during
    # propositional reduction after ~300 s (witness twin already) - not registered; harness kept for the record.
    return L
    quick = [(0, "2v", "1m", 0), (0, "1", "2h", 2), (1, "2v", "2h", 0), (2, "2v", "1m", 1), (3, "1l", "2g", 0)]
    for op, la, lb, al in quick:
        L.append(sweep_inst("sweep-%s-%s-%s-alias%d-r32" % (OPN[op], la, lb, al), op, la, lb, al))
    return L


TEXT = ("Bounded model checking of the real pixman-region.c (both the 16- and the 32-bit instantiation) on ARBITRARY canonical operands "
        "with full-width symbolic coordinates: (a) the three overlap callbacks that do the set algebra inside the band sweep "
        "(union_o, intersect_o, subtract_o) and append_non_o produce exactly the x-spans set algebra requires, sorted and maximal, for "
        "bands of up to 3+3 rectangles; (b) every public operation on the paths that do not enter the general sweep (trivial-case "
        "shortcuts, copy, reset, clear, init_rect, init_with_extents, intersect_rect, inverse of empty) returns TRUE, the exact point "
        "set (symbolic query point) and a canonical result, for all aliasing patterns tried; (c) an assume-guarantee cut AROUND the sweep: with pixman_op "
        "replaced by a contract stub (goto-instrument --replace-calls), union/intersect/subtract/inverse on arbitrary canonical operands of up to 2+2 (3+3 thorough) "
        "rectangles: every return that does not enter the sweep is exact and canonical (no shortcut fires for operands it is not valid for), the sweep is "
        "entered with the right operands, callback and append flags, and the extents post-processing is right for every aliasing pattern.")
NOTE = ("The sweep driver pixman_op itself (band pairing, coalescing calls, result normalisation) and validate()/init_rects with >1 "
        "rectangle could not be encoded: symbolic execution of pixman_op does not finish or exhausts 20 GB even for 1+1 rectangles with a "
        "typed pool allocator (probes in DESIGN.md section 9); that part of the property is NOT claimed. Allocation in the region unit is "
        "routed to a pre-sized pool (allocator stub; realloc grows in place).")
RULE = "C05 instance = (callback | API shortcut case) x rectangle counts x aliasing x 16/32 bit."
BOUNDS = {"rectangles": "<= 3 per band / operand", "coordinates": "full 16/32-bit range"}
OUTSIDE = ["pixman_op band sweep driver on general operands (not encodable: symex/memory blow-up, also with the band structure concrete and only x symbolic - harness C05/sweep.c kept unregistered)", "validate() / init_rects with more than one non-degenerate rectangle",
           "union_rect on non-empty regions (enters pixman_op)", "operands with more than 3 rectangles"]
ASSUMPTIONS = ["operands are canonical (oracle predicate)", "intersect_rect/init_rect: width, height >= 1 (intersect_rect does not validate a degenerate rectangle and then yields a degenerate single-rectangle region: point set right, form not canonical; treated as caller error)", "inverse: non-degenerate box", "allocator stub: pre-sized pool, realloc in place, free no-op"]
