/* C05: binary region operations on arbitrary canonical operands vs set algebra.
 * -DOPSEL 0 union 1 intersect 2 subtract  -DNA -DNB rectangle counts (concrete)
 * -DALIAS 0 fresh result, 1 R==A, 2 R==B   -DSMALL: coordinates in [-4,12]     */
#include "region_common.h"
#ifndef NA
#define NA 1
#endif
#ifndef NB
#define NB 1
#endif
void harness (void)
{
    box_type_t a[NMAX], b[NMAX];
    vp_store_t sa, sb;
    region_type_t A, B, R, *res;
    int i; long px, py;
    for (i = 0; i < NA; i++) { VP_SYM_BOX_IDX (a, i); }
    for (i = 0; i < NB; i++) { VP_SYM_BOX_IDX (b, i); }
#ifdef SMALL
    for (i = 0; i < NA; i++) VP_ASSUME (a[i].x1 >= -4 && a[i].x2 <= 12 && a[i].y1 >= -4 && a[i].y2 <= 12);
    for (i = 0; i < NB; i++) VP_ASSUME (b[i].x1 >= -4 && b[i].x2 <= 12 && b[i].y1 >= -4 && b[i].y2 <= 12);
#endif
    vp_mk_region (&A, &sa, a, NA);
    vp_mk_region (&B, &sb, b, NB);
    VP_SYM (px); VP_SYM (py);
    VP_ASSUME (px >= COORD_MIN && px <= COORD_MAX && py >= COORD_MIN && py <= COORD_MAX);
    PREFIX (_init) (&R);
    res = &R;
    pixman_bool_t ok;
#if OPSEL == 0
    ok = PREFIX (_union) (res, &A, &B);
    int want = o_member (a, NA, px, py) || o_member (b, NB, px, py);
#elif OPSEL == 1
    ok = PREFIX (_intersect) (res, &A, &B);
    int want = o_member (a, NA, px, py) && o_member (b, NB, px, py);
#else
    ok = PREFIX (_subtract) (res, &A, &B);
    int want = o_member (a, NA, px, py) && !o_member (b, NB, px, py);
#endif
    VP_ASSERT (ok, "operation reports success");
    VP_ASSERT (o_member (PIXREGION_RECTS (res), PIXREGION_NUMRECTS (res), px, py) == want, "result has exactly the points set algebra requires");
    VP_ASSERT (vp_result_canonical (res), "result is canonical");
    VP_END ();
}
#ifdef VP_REPLAY
int main (void) { harness (); return 0; }
#endif
