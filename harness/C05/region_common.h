/* Common part of the region harnesses: includes the real region unit
 * (-DBITS=16|32 -> pixman-region16.c / pixman-region32.c, each of which
 * #includes pixman-region.c), and provides harness-owned region storage so
 * that pre-states are ARBITRARY canonical regions, not call histories. */
#include "vp.h"
#include <config.h>
#ifndef RBITS
#define RBITS 32
#endif
#include "pixman-private.h"
#ifdef VP_POOL
/* Harness allocator for the region unit (allocator stub, listed in evidence):
 * malloc hands out successive pre-sized typed slots, realloc grows in place
 * (asserting the slot is large enough), free is a no-op.  Keeps CBMC's heap
 * model (symbolic-size realloc/memcpy) out of the band sweep. */
#ifndef POOLCAP
#define POOLCAP 8
#endif
#if RBITS == 32
typedef struct { pixman_region32_data_t hdr; pixman_box32_t boxes[POOLCAP]; } vp_slot_t;
#else
typedef struct { pixman_region16_data_t hdr; pixman_box16_t boxes[POOLCAP]; } vp_slot_t;
#endif
static vp_slot_t vp_pool[VP_POOL];
static int vp_pool_next;
#ifdef VP_POOL_TRACK
/* allocation-failure injection and leak accounting (C15 instances of the sweep) */
static int vp_fail_at, vp_alloc_calls;
static unsigned char vp_live[VP_POOL];
static int vp_is_slot (const void *p) { int i, r = 0; for (i = 0; i < VP_POOL; i++) if (p == (const void *) &vp_pool[i]) r = 1; return r; }
static int vp_live_slots (void) { int i, n = 0; for (i = 0; i < VP_POOL; i++) n += vp_live[i]; return n; }
#define VP_ALLOC_FAILS() (++vp_alloc_calls == vp_fail_at)
#else
#define VP_ALLOC_FAILS() 0
#endif
static void *vp_malloc (size_t n)
{
    if (VP_ALLOC_FAILS ()) return NULL;
    VP_ASSERT (n <= sizeof (vp_slot_t), "allocation fits the pre-sized slot (harness bound)");
    VP_ASSERT (vp_pool_next < VP_POOL, "enough slots (harness bound)");
#ifdef VP_POOL_TRACK
    vp_live[vp_pool_next] = 1;
#endif
    return &vp_pool[vp_pool_next++];
}
static void *vp_realloc (void *p, size_t n)
{
    if (VP_ALLOC_FAILS ()) return NULL;
    VP_ASSERT (n <= sizeof (vp_slot_t), "reallocation fits the pre-sized slot (harness bound)");
    return p;
}
static void vp_free (void *p)
{
#ifdef VP_POOL_TRACK
    int i;
    for (i = 0; i < VP_POOL; i++)
	if (p == (void *) &vp_pool[i]) { VP_ASSERT (vp_live[i], "no double free of a rectangle array"); vp_live[i] = 0; }
#endif
    (void) p;
}
#define malloc vp_malloc
#define realloc vp_realloc
#define free vp_free
#endif
#if RBITS == 32
#include "pixman-region32.c"
typedef int64_t wide_t;
#define COORD_MIN INT32_MIN
#define COORD_MAX INT32_MAX
#else
#include "pixman-region16.c"
typedef int32_t wide_t;
#define COORD_MIN INT16_MIN
#define COORD_MAX INT16_MAX
#endif
#ifdef VP_POOL
#undef malloc
#undef realloc
#undef free
#endif
#include "region.h"
O_DEF_MEMBER (o_member, box_type_t)
O_DEF_CANONICAL (o_canonical, box_type_t)
O_DEF_COALESCED (o_coalesced, box_type_t)

#ifndef NMAX
#define NMAX 3
#endif
typedef struct { region_data_type_t hdr; box_type_t boxes[NMAX]; } vp_store_t;

/* Build region r with n (concrete) rectangles over harness storage st from
 * the already-symbolic box array bx; assumes canonical form. */
static void vp_mk_region (region_type_t *r, vp_store_t *st, const box_type_t *bx, int n)
{
    int i;
    if (n == 0)
    {
	r->extents.x1 = r->extents.y1 = r->extents.x2 = r->extents.y2 = 0;
	r->data = pixman_region_empty_data;
    }
    else if (n == 1)
    {
	r->extents = bx[0];
	r->data = NULL;
	VP_ASSUME (bx[0].x1 < bx[0].x2 && bx[0].y1 < bx[0].y2);
    }
    else
    {
	box_type_t e;
	st->hdr.size = NMAX; st->hdr.numRects = n;
	for (i = 0; i < n; i++) st->boxes[i] = bx[i];
	e.x1 = bx[0].x1; e.x2 = bx[0].x2; e.y1 = bx[0].y1; e.y2 = bx[n - 1].y2;
	for (i = 1; i < n; i++) { if (bx[i].x1 < e.x1) e.x1 = bx[i].x1; if (bx[i].x2 > e.x2) e.x2 = bx[i].x2; }
	r->extents = e;
	r->data = &st->hdr;
	VP_ASSUME (o_canonical (&e, bx, n) && o_coalesced (bx, n));
    }
}
/* canonical-form check of a result region (C06) */
static int vp_result_canonical (region_type_t *r)
{
    int n = PIXREGION_NUMRECTS (r);
    if (r->data && r->data->numRects == 0)
	return 1;				/* empty: extents checked by caller where relevant */
    if (r->data && r->data->numRects == 1)
	return 0;				/* single rectangles are stored without a list */
    return o_canonical (&r->extents, PIXREGION_RECTS (r), n) && o_coalesced (PIXREGION_RECTS (r), n);
}
