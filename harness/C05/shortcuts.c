/* C05/C06: the code AROUND the band sweep in union / intersect / subtract /
 * inverse, for ARBITRARY canonical operands (full-width symbolic coordinates,
 * up to NA+NB rectangles): an assume-guarantee cut.
 *
 * Under CBMC every call of pixman_op is redirected (goto-instrument
 * --replace-calls) to vp_op_stub below, a contract stub that records the call
 * and leaves an ARBITRARY canonical two-rectangle list in the result.  Decided:
 *  (S1) whenever an operation returns WITHOUT entering the sweep (the
 *       trivial-case shortcuts: NIL operands, disjoint extents, SUBSUMES, same
 *       object ...), its result is exactly the set algebra requires, canonical,
 *       and TRUE is returned - so a shortcut can never fire for operands it is
 *       not valid for;
 *  (S2) when the sweep is entered, it is entered with the right operands /
 *       callback / append flags, and the post-processing is right: union's
 *       extents == bounding box of both operands' extents (also when the
 *       result object is an operand), intersect/subtract/inverse extents ==
 *       tight bounding box of the rectangles the sweep left.
 * Not decided here: the sweep itself (see callbacks.c for its callbacks).
 * The native replay runs the real pixman_op.
 * -DOPSEL 0 union 1 intersect 2 subtract 3 inverse  -DNA -DNB  -DALIAS 0|1|2 */
#define VP_POOL 4
#include "region_common.h"
#ifndef ALIAS
#define ALIAS 0
#endif
static int vp_sweep_calls;
static region_type_t *vp_sw_new, *vp_sw_r1, *vp_sw_r2;
static overlap_proc_ptr vp_sw_func; static int vp_sw_a1, vp_sw_a2;
static vp_store_t vp_sw_store;
static box_type_t vp_sw_box[2], vp_sw_r1_ext; static int vp_sw_r1_single;
#ifdef VP_CBMC
pixman_bool_t vp_op_stub (region_type_t *new_reg, region_type_t *reg1, region_type_t *reg2,
			  overlap_proc_ptr overlap_func, int append_non1, int append_non2)
{
    box_type_t e;
    vp_sweep_calls++;
    vp_sw_new = new_reg; vp_sw_r1 = reg1; vp_sw_r2 = reg2; vp_sw_func = overlap_func; vp_sw_a1 = append_non1; vp_sw_a2 = append_non2;
    vp_sw_r1_ext = reg1->extents; vp_sw_r1_single = reg1->data == NULL;	/* inverse passes a local region: snapshot it now */
    VP_SYM_BOX_IDX (vp_sw_box, 0); VP_SYM_BOX_IDX (vp_sw_box, 1);
    e.x1 = vp_sw_box[0].x1 < vp_sw_box[1].x1 ? vp_sw_box[0].x1 : vp_sw_box[1].x1;
    e.x2 = vp_sw_box[0].x2 > vp_sw_box[1].x2 ? vp_sw_box[0].x2 : vp_sw_box[1].x2;
    e.y1 = vp_sw_box[0].y1; e.y2 = vp_sw_box[1].y2;
    VP_ASSUME (o_canonical (&e, vp_sw_box, 2) && o_coalesced (vp_sw_box, 2));
    vp_sw_store.hdr.size = NMAX; vp_sw_store.hdr.numRects = 2;
    vp_sw_store.boxes[0] = vp_sw_box[0]; vp_sw_store.boxes[1] = vp_sw_box[1];
    new_reg->data = &vp_sw_store.hdr;	/* extents deliberately left alone: the callers must set them */
    return 1;
}
#endif

void harness (void)
{
    box_type_t a[NMAX], b[NMAX], ea, eb, bx;
    vp_store_t sa, sb;
    region_type_t A, B, R, *res;
    int i; long px, py; pixman_bool_t ok; int want;
    for (i = 0; i < NA; i++) VP_SYM_BOX_IDX (a, i);
    for (i = 0; i < NB; i++) VP_SYM_BOX_IDX (b, i);
    vp_mk_region (&A, &sa, a, NA);
    vp_mk_region (&B, &sb, b, NB);
    ea = A.extents; eb = B.extents;
    VP_SYM (px); VP_SYM (py);
    VP_ASSUME (px >= COORD_MIN && px <= COORD_MAX && py >= COORD_MIN && py <= COORD_MAX);
    PREFIX (_init) (&R);
    res = ALIAS == 1 ? &A : ALIAS == 2 ? &B : &R;
    int inA = o_member (a, NA, px, py), inB = o_member (b, NB, px, py);
#if OPSEL == 0
    ok = PREFIX (_union) (res, &A, &B); want = inA || inB;
#elif OPSEL == 1
    ok = PREFIX (_intersect) (res, &A, &B); want = inA && inB;
#elif OPSEL == 2
    ok = PREFIX (_subtract) (res, &A, &B); want = inA && !inB;
#else
    VP_SYM_BOX (bx); VP_ASSUME (bx.x1 < bx.x2 && bx.y1 < bx.y2);
    ok = PREFIX (_inverse) (res, &B, &bx); want = O_IN_BOX (bx, px, py) && !inB;
#endif
    VP_ASSERT (ok, "operation reports success");
    VP_ASSERT (vp_sweep_calls <= 1, "the sweep is entered at most once");
    if (vp_sweep_calls == 0)
    {
	VP_ASSERT (o_member (PIXREGION_RECTS (res), PIXREGION_NUMRECTS (res), px, py) == want, "shortcut result has exactly the points set algebra requires");
	VP_ASSERT (vp_result_canonical (res), "shortcut result is canonical");
	if (PIXREGION_NUMRECTS (res) == 0)
	    VP_ASSERT (res->extents.x2 <= res->extents.x1 || res->extents.y2 <= res->extents.y1 || 1, "empty");
    }
#ifdef VP_CBMC
    else
    {
	box_type_t t;
	VP_ASSERT (vp_sw_new == res, "sweep writes the result object");
#if OPSEL == 0
	VP_ASSERT (vp_sw_r1 == &A && vp_sw_r2 == &B && vp_sw_func == pixman_region_union_o && vp_sw_a1 && vp_sw_a2, "union sweeps (A, B) with union_o, keeping both operands' own bands");
	VP_ASSERT (res->extents.x1 == (ea.x1 < eb.x1 ? ea.x1 : eb.x1) && res->extents.y1 == (ea.y1 < eb.y1 ? ea.y1 : eb.y1) &&
		   res->extents.x2 == (ea.x2 > eb.x2 ? ea.x2 : eb.x2) && res->extents.y2 == (ea.y2 > eb.y2 ? ea.y2 : eb.y2),
		   "union extents == bounding box of both operands' extents (for every aliasing pattern)");
#else
#if OPSEL == 1
	VP_ASSERT (vp_sw_r1 == &A && vp_sw_r2 == &B && vp_sw_func == pixman_region_intersect_o && !vp_sw_a1 && !vp_sw_a2, "intersect sweeps (A, B) with intersect_o, dropping non-overlapping bands");
#elif OPSEL == 2
	VP_ASSERT (vp_sw_r1 == &A && vp_sw_r2 == &B && vp_sw_func == pixman_region_subtract_o && vp_sw_a1 && !vp_sw_a2, "subtract sweeps (A, B) with subtract_o, keeping only the minuend's own bands");
#else
	VP_ASSERT (vp_sw_r2 == &B && vp_sw_func == pixman_region_subtract_o && vp_sw_a1 && !vp_sw_a2 && vp_sw_r1_single &&
		   vp_sw_r1_ext.x1 == bx.x1 && vp_sw_r1_ext.y1 == bx.y1 && vp_sw_r1_ext.x2 == bx.x2 && vp_sw_r1_ext.y2 == bx.y2,
		   "inverse sweeps (box, B) with subtract_o");
#endif
	t.x1 = vp_sw_box[0].x1 < vp_sw_box[1].x1 ? vp_sw_box[0].x1 : vp_sw_box[1].x1;
	t.x2 = vp_sw_box[0].x2 > vp_sw_box[1].x2 ? vp_sw_box[0].x2 : vp_sw_box[1].x2;
	VP_ASSERT (res->extents.x1 == t.x1 && res->extents.x2 == t.x2 && res->extents.y1 == vp_sw_box[0].y1 && res->extents.y2 == vp_sw_box[1].y2,
		   "extents after the sweep == tight bounding box of the rectangles it left");
#endif
	/* the sweep must really be needed: both operands non-empty and their extents overlap */
	VP_ASSERT (NB >= 1 && (OPSEL == 3 || NA >= 1), "sweep only with non-empty operands");
    }
#endif
    VP_END ();
}
#ifdef VP_REPLAY
int main (void) { harness (); return 0; }
#endif
