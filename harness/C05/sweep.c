/* C05/C06: the general band sweep pixman_op (band pairing, callbacks,
 * coalescing, result normalisation, extents) through the public
 * union / intersect / subtract / inverse entry points.
 *
 * Bound that makes the sweep encodable: the BAND STRUCTURE of each operand
 * (number of rectangles per band and the y range of each band) is concrete
 * per instance, the x coordinates of every rectangle are symbolic over the
 * full coordinate range.  (With symbolic y as well, symbolic execution of
 * pixman_op does not finish - DESIGN.md section 7.)
 *
 * -DOPSEL 0 union 1 intersect 2 subtract 3 inverse(B within box A[0])
 * -DAY="y1,y2, y1,y2, ..."  one y pair per rectangle of A (bands = equal pairs)
 * -DBY=...                  same for B         -DNA -DNB rectangle counts
 * -DALIAS 0 fresh result | 1 result is A | 2 result is B
 * -DFAILK=k: k-th allocation of the call fails (C15): must return FALSE,
 *            leave a well-formed (broken or unchanged) result and leak nothing */
#ifndef VP_POOL
#define VP_POOL 6
#endif
#define POOLCAP 8
#define NMAX 8
#ifdef FAILK
#define VP_POOL_TRACK
#endif
#include "region_common.h"
#ifndef ALIAS
#define ALIAS 0
#endif
static const int ay[] = { AY, 0, 0 };
static const int by[] = { BY, 0, 0 };

void harness (void)
{
    box_type_t a[NMAX], b[NMAX], a0[NMAX], b0[NMAX];
    vp_store_t sa, sb;
    region_type_t A, B, R, *res;
    int i; long px, py;
    for (i = 0; i < NA; i++) { VP_SYM_IDXF (a, i, x1); VP_SYM_IDXF (a, i, x2); a[i].y1 = ay[2 * i]; a[i].y2 = ay[2 * i + 1]; a0[i] = a[i]; }
    for (i = 0; i < NB; i++) { VP_SYM_IDXF (b, i, x1); VP_SYM_IDXF (b, i, x2); b[i].y1 = by[2 * i]; b[i].y2 = by[2 * i + 1]; b0[i] = b[i]; }
    vp_mk_region (&A, &sa, a, NA);
    vp_mk_region (&B, &sb, b, NB);
    VP_SYM (px); VP_SYM (py);
    VP_ASSUME (px >= COORD_MIN && px <= COORD_MAX && py >= -2 && py <= 12);
    PREFIX (_init) (&R);
    res = ALIAS == 1 ? &A : ALIAS == 2 ? &B : &R;
    pixman_bool_t ok;
    int inA = o_member (a0, NA, px, py), inB = o_member (b0, NB, px, py), want;
#ifdef FAILK
    vp_fail_at = FAILK;
#endif
#if OPSEL == 0
    ok = PREFIX (_union) (res, &A, &B); want = inA || inB;
#elif OPSEL == 1
    ok = PREFIX (_intersect) (res, &A, &B); want = inA && inB;
#elif OPSEL == 2
    ok = PREFIX (_subtract) (res, &A, &B); want = inA && !inB;
#else
    { box_type_t bx = a0[0]; ok = PREFIX (_inverse) (res, &B, &bx); want = O_IN_BOX (bx, px, py) && !inB; }
#endif
#ifdef FAILK
    if (vp_alloc_calls >= FAILK)
    {
	VP_ASSERT (!ok, "an allocation failed: the operation reports failure");
	VP_ASSERT (res->data == pixman_broken_data || res->data == NULL || res->data->numRects <= res->data->size,
		   "failed operation leaves a well-formed result object");
	/* every slot handed out during the call has been given back, except the
	 * one (at most) the result region owns */
	VP_ASSERT (vp_live_slots () == ((res->data && res->data != pixman_broken_data && res->data != pixman_region_empty_data && vp_is_slot (res->data)) ? 1 : 0),
		   "no rectangle array is leaked when an allocation fails");
    }
    else
#endif
    {
	VP_ASSERT (ok, "operation reports success");
	VP_ASSERT (o_member (PIXREGION_RECTS (res), PIXREGION_NUMRECTS (res), px, py) == want, "result has exactly the points set algebra requires");
	VP_ASSERT (vp_result_canonical (res), "result is canonical (y-x banded, coalesced, tight extents, single rectangle without list)");
	/* operands that are not the result object keep their value */
#if ALIAS != 1 && OPSEL != 3
	VP_ASSERT (o_member (PIXREGION_RECTS (&A), PIXREGION_NUMRECTS (&A), px, py) == inA && PIXREGION_NUMRECTS (&A) == NA, "first operand unchanged");
#endif
#if ALIAS != 2
	VP_ASSERT (o_member (PIXREGION_RECTS (&B), PIXREGION_NUMRECTS (&B), px, py) == inB && PIXREGION_NUMRECTS (&B) == NB, "second operand unchanged");
#endif
    }
    VP_END ();
}
#ifdef VP_REPLAY
int main (void) { harness (); return 0; }
#endif
