/* C05: region operations on the paths that do not enter the general band sweep
 * (trivial-case shortcuts, copy, reset, clear, init_*, intersect_rect, 16/32
 * conversions), arbitrary canonical operands, full-width coordinates.
 * -DCASE n  -DNA/-DNB rectangle counts  -DALIAS 0 fresh | 1 R==A | 2 R==B     */
#define VP_POOL 4
#include "region_common.h"
#ifndef NA
#define NA 1
#endif
#ifndef NB
#define NB 1
#endif
#ifndef ALIAS
#define ALIAS 0
#endif
#define MEMBER_R(px, py) o_member (PIXREGION_RECTS (res), PIXREGION_NUMRECTS (res), px, py)

static int empty_ok (region_type_t *r)
{   /* all representations of the empty region the library produces */
    return r->data && r->data->numRects == 0;
}

void harness (void)
{
    box_type_t a[NMAX], b[NMAX];
    vp_store_t sa, sb;
    region_type_t A, B, R, *res;
    int i; long px, py; pixman_bool_t ok = 1; int want = 0;
    for (i = 0; i < NA; i++) VP_SYM_BOX_IDX (a, i);
    for (i = 0; i < NB; i++) VP_SYM_BOX_IDX (b, i);
    vp_mk_region (&A, &sa, a, NA);
    vp_mk_region (&B, &sb, b, NB);
    VP_SYM (px); VP_SYM (py);
    VP_ASSUME (px >= COORD_MIN && px <= COORD_MAX && py >= COORD_MIN && py <= COORD_MAX);
    PREFIX (_init) (&R);
    res = ALIAS == 1 ? &A : ALIAS == 2 ? &B : &R;
    int inA = o_member (a, NA, px, py), inB = o_member (b, NB, px, py);
#if CASE == 0	/* intersect; with NA==NB==1 every input takes a shortcut */
    ok = PREFIX (_intersect) (res, &A, &B); want = inA && inB;
#elif CASE == 1	/* union where one operand is empty (NA==0 or NB==0) or both are the same object */
    ok = PREFIX (_union) (res, &A, &B); want = inA || inB;
#elif CASE == 2	/* subtract with an empty operand */
    ok = PREFIX (_subtract) (res, &A, &B); want = inA && !inB;
#elif CASE == 3	/* same object as both operands */
    ok = PREFIX (_union) (res, &A, &A); want = inA;
    VP_ASSERT (ok && MEMBER_R (px, py) == want, "union (A, A) == A");
    ok = PREFIX (_intersect) (res, &A, &A);
    VP_ASSERT (ok && MEMBER_R (px, py) == want, "intersect (A, A) == A");
    ok = PREFIX (_subtract) (&R, &A, &A); res = &R; want = 0;
#elif CASE == 4	/* inverse of the empty region within a box; copy; reset; clear */
    { box_type_t bx; VP_SYM_BOX (bx); VP_ASSUME (bx.x1 < bx.x2 && bx.y1 < bx.y2);
      ok = PREFIX (_inverse) (res, &B /* NB == 0 */, &bx); want = O_IN_BOX (bx, px, py);
      VP_ASSERT (ok && MEMBER_R (px, py) == want && vp_result_canonical (res), "inverse of empty region == box");
      ok = PREFIX (_copy) (&R, &A); res = &R; want = inA;
      VP_ASSERT (ok && MEMBER_R (px, py) == want && vp_result_canonical (res), "copy");
      VP_ASSERT (PREFIX (_equal) (&R, &A), "copy equals its source");
      PREFIX (_reset) (&R, &bx); want = O_IN_BOX (bx, px, py);
      VP_ASSERT (MEMBER_R (px, py) == want && R.data == NULL, "reset");
      PREFIX (_clear) (&R);
      VP_ASSERT (!PREFIX (_not_empty) (&R) && empty_ok (&R), "clear");
      want = 0; }
#elif CASE == 5	/* intersect_rect, init_rect, init_with_extents */
    { int x, y; unsigned w, h; VP_SYM (x); VP_SYM (y); VP_SYM (w); VP_SYM (h);
      long long x2 = (long long) x + w, y2 = (long long) y + h;
      VP_ASSUME (w >= 1 && h >= 1);	/* degenerate rectangles are outside intersect_rect's contract (it does not validate) */
      VP_ASSUME (x >= COORD_MIN && x <= COORD_MAX && y >= COORD_MIN && y <= COORD_MAX && x2 <= COORD_MAX && y2 <= COORD_MAX);
      int inrect = px >= x && px < x2 && py >= y && py < y2;
      ok = PREFIX (_intersect_rect) (res, &A, x, y, w, h); want = inA && inrect;
      VP_ASSERT (ok && MEMBER_R (px, py) == want && vp_result_canonical (res), "intersect_rect");
      PREFIX (_init_rect) (&R, x, y, w, h); res = &R; want = inrect;
      VP_ASSERT (MEMBER_R (px, py) == want && vp_result_canonical (res), "init_rect");
      box_type_t e; VP_SYM_BOX (e); VP_ASSUME (e.x1 <= e.x2 && e.y1 <= e.y2);
      PREFIX (_init_with_extents) (&R, &e); want = O_IN_BOX (e, px, py);
      VP_ASSERT (MEMBER_R (px, py) == want && vp_result_canonical (res), "init_with_extents");
      ok = 1; }
#elif CASE == 7	/* union_rect with a degenerate rectangle: result is a copy of the source (fresh or aliased destination) */
    { int x = 3, y = -2; unsigned w = ZW, h = ZH;	/* concrete degenerate rectangle per instance (a symbolic one drags the band sweep into symbolic execution) */
      VP_ASSUME (w == 0 || h == 0);
      VP_ASSUME (x >= COORD_MIN && x <= COORD_MAX && y >= COORD_MIN && y <= COORD_MAX && (long long) x + w <= COORD_MAX && (long long) y + h <= COORD_MAX);
      /* the destination holds unrelated stale content (B) unless aliased */
      res = ALIAS == 1 ? &A : &B;
      ok = PREFIX (_union_rect) (res, &A, x, y, w, h); want = inA; }
#elif CASE == 6	/* 16 <-> 32 conversions of a single rectangle */
    {
#if RBITS == 32
      pixman_region16_t r16; pixman_region16_init (&r16);
      VP_ASSUME (a[0].x1 >= INT16_MIN && a[0].x2 <= INT16_MAX && a[0].y1 >= INT16_MIN && a[0].y2 <= INT16_MAX);
      ok = pixman_region16_copy_from_region32 (&r16, &A);
      VP_ASSERT (ok && pixman_region_contains_point (&r16, px, py, NULL) == inA, "32 -> 16 conversion keeps the point set");
      ok = pixman_region32_copy_from_region16 (&R, &r16); res = &R; want = inA;
#else
      ok = 1; res = &A; want = inA;
#endif
    }
#endif
    VP_ASSERT (ok, "operation reports success");
    VP_ASSERT (MEMBER_R (px, py) == want, "result has exactly the points set algebra requires");
    VP_ASSERT (vp_result_canonical (res), "result is canonical");
    if (PIXREGION_NUMRECTS (res) == 0) VP_ASSERT (!PREFIX (_not_empty) (res), "empty result is reported empty");
    VP_END ();
}
#ifdef VP_REPLAY
int main (void) { harness (); return 0; }
#endif
