from vp.core import Inst

LEVEL = "model_checking"
GRIDSET = ("grid_mask.0:7", "grid_mask.1:7", "memcmp.0:70")


def instances(tier):
    L = []
    pairs = ((3, 3), (3, 2), (2, 2), (1, 1), (1, 0), (0, 0)) if tier == "quick" else [(a, b) for a in range(4) for b in range(a + 1)]
    for bits in (32, 16):
        for na, nb in pairs:
            if bits == 16 and tier == "quick" and (na, nb) not in ((3, 3), (1, 0)):
                continue
            L.append(Inst("equal-grid-%d-%d-r%d" % (na, nb, bits), "C07/queries.c", {"Q": 5, "NA": na, "NB": nb, "RBITS": bits}, link=[],
                          unwind=5, unwindset=GRIDSET, timeout=900,
                          desc={"what": "equal(A,B) <=> same point set, and same points => identical rectangle lists, for arbitrary canonical A,B on a 5x5 grid"}))
        for v in (1, 2):
            for na in (0, 1):
                L.append(Inst("equal-emptyrepr%d-%d-r%d" % (v, na, bits), "C07/queries.c", {"Q": 5, "NA": na, "NB": 0, "EMPTY_VARIANT": v, "RBITS": bits},
                              link=[], unwind=5, unwindset=GRIDSET,
                              desc={"what": "all representations of the empty region (size-0 heap data, arbitrary / degenerate extents) are equal to each other and to nothing else"}))
        for n1, n2 in ((1, 1), (2, 2), (3, 3), (2, 1)):
            L.append(Inst("coalesce-%d-%d-r%d" % (n1, n2, bits), "C05/callbacks.c", {"CB": 3, "N1": n1, "N2": n2, "RBITS": bits}, link=[], unwind=n1 + n2 + 3,
                          desc={"what": "pixman_coalesce/COALESCE merges two bands exactly when adjacent with identical spans; point set preserved"}))
        L.append(Inst("set_extents-3-r%d" % bits, "C05/callbacks.c", {"CB": 4, "N1": 1, "N2": 1, "RBITS": bits}, link=[], unwind=6,
                      desc={"what": "pixman_set_extents yields the tight bounding box of an arbitrary canonical 3-rectangle list"}))
        L.append(Inst("describe-selfcheck-3-r%d" % bits, "C07/queries.c", {"Q": 3, "NA": 3, "RBITS": bits}, link=[], unwind=5,
                      desc={"what": "selfcheck accepts every canonical region; extents tight"}))
        # results of operations are canonical: shortcut paths and translate
        L.append(Inst("canonical-after-intersect-r%d" % bits, "C05/trivial.c", {"CASE": 0, "NA": 1, "NB": 1, "RBITS": bits}, link=[], unwind=6, timeout=600,
                      desc={"what": "result of intersect is canonical (asserted together with the point set)"}))
        L.append(Inst("canonical-after-translate-2-r%d" % bits, "C07/queries.c", {"Q": 4, "NA": 2, "RBITS": bits}, link=[], unwind=5, timeout=900,
                      desc={"what": "translate (incl. clipping) keeps order, gaps, non-empty rectangles, tight extents, inline single rectangle"}))
        L.append(Inst("translate-KF-coalesce-n2-r%d" % bits, "C07/queries.c", {"Q": 4, "NA": 2, "RBITS": bits, "KF_COALESCE": None}, link=[], unwind=5, timeout=900,
                      desc={"what": "known finding: bands made identical by clipping are not re-merged"}))
        for cb, nm in ((0, "union_o"), (2, "subtract_o")):
            L.append(Inst("band-%s-2-2-r%d" % (nm, bits), "C05/callbacks.c", {"CB": cb, "N1": 2, "N2": 2, "RBITS": bits}, link=[], unwind=7, timeout=600,
                          desc={"what": "bands emitted by the overlap callbacks are sorted with strict gaps (maximal spans), non-empty"}))
    return L


TEXT = ("Bounded model checking on arbitrary canonical regions (<= 3 rectangles): pixman_region_equal returns TRUE exactly when the point "
        "sets are equal (5x5 grid, masks computed by the oracle), including every representation of the empty region; identical point "
        "sets imply identical rectangle lists under the canonical-form predicate (which validates the predicate itself); the mechanisms "
        "that maintain canonical form - coalesce, set_extents, band output of the callbacks, result normalisation of the shortcut paths, "
        "translate - are checked on the real code with full-width coordinates.")
NOTE = ("'Every region the library produces' is covered only for the producers that can be encoded (see C05): results of the general "
        "band sweep pixman_op / validate() are not checked end-to-end. One recorded finding: translate's clipping path does not re-merge "
        "bands (known_findings.txt).")
RULE = "C06 instance = mechanism x rectangle counts x 16/32 bit."
BOUNDS = {"rectangles": "<= 3", "equal": "coordinates 0..5", "others": "full width"}
OUTSIDE = ["canonical form of results of the general band sweep and of validate() (not encodable, see C05)", "regions with more than 3 rectangles"]
ASSUMPTIONS = ["operands are canonical (oracle predicate o_canonical + o_coalesced)"]
