/* C07: bitmap import  PREFIX(_init_from_image) on a symbolic a1 bitmap:
 * the region contains exactly the set bits (point-wise, symbolic query point)
 * and is canonical.  -DIW -DIH image size (concrete), all bits symbolic
 * (optionally -DW0=<word> pins the first word of every row: the 32-iteration
 * bit loop over a fully symbolic word is the expensive part).                */
#define VP_POOL 2
#define POOLCAP 24
#include "../C05/region_common.h"
#define STRIDEW ((IW + 31) / 32)
uint32_t *pixman_image_get_data (pixman_image_t *image) { return image->bits.bits; }
int pixman_image_get_width (pixman_image_t *image) { return image->bits.width; }
int pixman_image_get_height (pixman_image_t *image) { return image->bits.height; }
int pixman_image_get_stride (pixman_image_t *image) { return image->bits.rowstride * 4; }
void harness (void)
{
    static pixman_image_t img; static uint32_t bits[IH * STRIDEW];
    region_type_t R; int i, px, py;
    for (i = 0; i < IH * STRIDEW; i++) VP_SYM_IDX (bits, i);
#ifdef W0
    for (i = 0; i < IH; i++) bits[i * STRIDEW] = W0;
#endif
    img.type = BITS; img.bits.format = PIXMAN_a1; img.bits.width = IW; img.bits.height = IH; img.bits.bits = bits; img.bits.rowstride = STRIDEW;
    PREFIX (_init_from_image) (&R, &img);
    VP_SYM (px); VP_SYM (py);
    VP_ASSUME (px >= -2 && px <= IW + 2 && py >= -2 && py <= IH + 2);
    int want = px >= 0 && px < IW && py >= 0 && py < IH && ((bits[py * STRIDEW + px / 32] >> (px % 32)) & 1);	/* little-endian bit order */
    VP_ASSERT (o_member (PIXREGION_RECTS (&R), PIXREGION_NUMRECTS (&R), px, py) == want, "imported region contains exactly the set bits");
    if (PIXREGION_NUMRECTS (&R) > 0)
	VP_ASSERT (o_canonical (&R.extents, PIXREGION_RECTS (&R), PIXREGION_NUMRECTS (&R)), "imported region is y-x banded with tight extents");
    VP_END ();
}
#ifdef VP_REPLAY
int main (void) { harness (); return 0; }
#endif
