from vp.core import Inst

LEVEL = "model_checking"
GRIDSET = ("grid_mask.0:7", "grid_mask.1:7")


# MEASURED: init_from_image (harness C07/fromimage.c) gives no verdict - the witness twin of even a 6x2 bitmap times out after 900 s
# (rectangle pointer advanced under symbolic conditions, realloc'ing list); not registered.
FROMIMG = [] and [("6x2", {"IW": 6, "IH": 2, "RBITS": 32}, 34), ("34x1-w0ones", {"IW": 34, "IH": 1, "RBITS": 32, "W0": "0xffffffffu"}, 34),
           ("34x1", {"IW": 34, "IH": 1, "RBITS": 32}, 34)]


def instances(tier):
    L = []

    def I(name, d, unwind=5, **k):
        L.append(Inst(name, "C07/queries.c", d, link=[], unwind=unwind, **k))
    for nm, d, uw in FROMIMG:
        L.append(Inst("init_from_image-" + nm, "C07/fromimage.c", d, link=[], unwind=uw, timeout=900, checks=["--bounds-check", "--pointer-check"],
                      desc={"what": "init_from_image on a symbolic a1 bitmap: region == set bits point-wise, canonical"}))
    for bits in (32, 16):
        ns = (3, 2, 1, 0) if tier == "thorough" else (3, 1)
        for na in ns:
            I("contains_point-n%d-r%d" % (na, bits), {"Q": 0, "NA": na, "RBITS": bits}, timeout=600,
              desc={"what": "contains_point == membership, returned box is the member rectangle; full-width coordinates"})
            I("describe-n%d-r%d" % (na, bits), {"Q": 3, "NA": na, "RBITS": bits}, timeout=600,
              desc={"what": "not_empty, n_rects, rectangles, extents (tight), selfcheck on arbitrary canonical region"})
        for na in ((3, 2, 1) if tier == "thorough" else (2, 1)):
            I("translate-n%d-r%d" % (na, bits), {"Q": 4, "NA": na, "RBITS": bits}, timeout=900,
              desc={"what": "translate by any (dx,dy): representable points move, the rest is discarded, result canonical"})
        I("translate-KF-coalesce-n2-r%d" % bits, {"Q": 4, "NA": 2, "RBITS": bits, "KF_COALESCE": None}, timeout=900,
          desc={"what": "known finding: clipping translate leaves two adjacent bands with identical spans unmerged"})
        for na in ((3, 2) if tier == "thorough" else (2,)):
            I("contains_rect-grid-n%d-r%d" % (na, bits), {"Q": 2, "NA": na, "RBITS": bits}, unwindset=GRIDSET, timeout=900,
              desc={"what": "contains_rectangle exact IN/OUT/PART on a 5x5 coordinate grid"})
        if tier == "thorough":
            I("contains_rect-sound-n3-r%d" % bits, {"Q": 1, "NA": 3, "RBITS": bits}, timeout=1500,
              desc={"what": "contains_rectangle IN => all points members, OUT => none; full-width coordinates"})
    return L


TEXT = ("Bounded model checking of the real region query/translate code on ARBITRARY canonical regions (pre-state constrained only by "
        "an independent canonical-form predicate, not by call histories) with up to 3 rectangles and full-width symbolic coordinates: "
        "contains_point, not_empty/n_rects/extents, translate with overflow clipping (both 16- and 32-bit instantiations); "
        "contains_rectangle exactly on a 5x5 grid and soundly at full width.")
NOTE = ("Trusted: oracle/region.h (point-set model, canonical predicate). Regions live in harness-owned storage; the region unit's "
        "malloc/realloc/free are routed to a pre-sized pool (allocator stub). init_from_image and regions with more than 3 rectangles are outside the bound.")
RULE = "C07 instance = query x rectangle count x 16/32-bit instantiation."
BOUNDS = {"rectangles": "<= 3 per region", "coordinates": "full 16/32-bit range (grid 0..5 for exact contains_rectangle)"}
OUTSIDE = ["pixman_region_init_from_image (bitmap import): allocating band construction, symbolic execution does not finish", "regions with more than 3 rectangles"]
ASSUMPTIONS = ["operands are canonical regions (oracle predicate o_canonical + o_coalesced)", "query rectangles are non-degenerate"]
