/* C07 (+C06): region queries and translate on ARBITRARY canonical regions in
 * harness-owned storage, full-width coordinates unless -DGRID.
 * -DQ 0 contains_point 1 contains_rectangle (soundness, full width)
 *     2 contains_rectangle (exact IN/OUT/PART on a GRIDxGRID coordinate grid)
 *     3 not_empty / n_rects / extents / selfcheck  4 translate
 *     5 equal() <=> same point set (grid)            -DNA rectangles           */
#define VP_POOL 2
#include "../C05/region_common.h"
#ifndef NA
#define NA 3
#endif
#ifndef NB
#define NB 2
#endif
#define GRID 5

static unsigned long grid_mask (const box_type_t *b, int n)
{
    unsigned long m = 0; int x, y;
    for (y = 0; y < GRID; y++) for (x = 0; x < GRID; x++)
	if (o_member (b, n, x, y)) m |= 1ul << (y * GRID + x);
    return m;
}

void harness (void)
{
    box_type_t a[NMAX], b[NMAX];
    vp_store_t sa, sb;
    region_type_t A, B;
    int i; long px, py;
    for (i = 0; i < NA; i++) VP_SYM_BOX_IDX (a, i);
    vp_mk_region (&A, &sa, a, NA);
    VP_SYM (px); VP_SYM (py);
    VP_ASSUME (px >= COORD_MIN && px <= COORD_MAX && py >= COORD_MIN && py <= COORD_MAX);
#if Q == 0
    box_type_t out; out.x1 = out.x2 = out.y1 = out.y2 = 0;
    int r = PREFIX (_contains_point) (&A, px, py, &out);
    VP_ASSERT ((r != 0) == o_member (a, NA, px, py), "contains_point is set membership");
    if (r)
    {
	int found = 0;
	for (i = 0; i < NA; i++) if (out.x1 == a[i].x1 && out.x2 == a[i].x2 && out.y1 == a[i].y1 && out.y2 == a[i].y2) found = 1;
	VP_ASSERT (found && O_IN_BOX (out, px, py), "returned box is the member rectangle holding the point");
    }
    VP_ASSERT (PREFIX (_contains_point) (&A, px, py, NULL) == r, "NULL box argument accepted");
#elif Q == 1
    box_type_t rc; VP_SYM_BOX (rc); VP_ASSUME (rc.x1 < rc.x2 && rc.y1 < rc.y2);
    pixman_region_overlap_t r = PREFIX (_contains_rectangle) (&A, &rc);
    VP_ASSERT (r == PIXMAN_REGION_IN || r == PIXMAN_REGION_OUT || r == PIXMAN_REGION_PART, "result is IN, OUT or PART");
    if (O_IN_BOX (rc, px, py))
    {
	if (r == PIXMAN_REGION_IN) VP_ASSERT (o_member (a, NA, px, py), "IN: every point of the rectangle is a member");
	if (r == PIXMAN_REGION_OUT) VP_ASSERT (!o_member (a, NA, px, py), "OUT: no point of the rectangle is a member");
    }
#elif Q == 2
    for (i = 0; i < NA; i++) VP_ASSUME (a[i].x1 >= 0 && a[i].x2 <= GRID && a[i].y1 >= 0 && a[i].y2 <= GRID);
    box_type_t rc; VP_SYM_BOX (rc); VP_ASSUME (rc.x1 < rc.x2 && rc.y1 < rc.y2 && rc.x1 >= 0 && rc.x2 <= GRID && rc.y1 >= 0 && rc.y2 <= GRID);
    unsigned long ma = grid_mask (a, NA), mr = grid_mask (&rc, 1);
    pixman_region_overlap_t r = PREFIX (_contains_rectangle) (&A, &rc);
    pixman_region_overlap_t want = (mr & ~ma) == 0 ? PIXMAN_REGION_IN : (mr & ma) == 0 ? PIXMAN_REGION_OUT : PIXMAN_REGION_PART;
    VP_ASSERT (r == want, "contains_rectangle: IN iff subset, OUT iff disjoint, PART otherwise");
#elif Q == 3
    VP_ASSERT (PREFIX (_not_empty) (&A) == (NA > 0), "not_empty");
    VP_ASSERT (PREFIX (_n_rects) (&A) == NA, "n_rects");
    { int n; box_type_t *rr = PREFIX (_rectangles) (&A, &n);
      VP_ASSERT (n == NA && o_member (rr, n, px, py) == o_member (a, NA, px, py), "rectangles() describes the set"); }
    if (NA > 0)
    {
	box_type_t *e = PREFIX (_extents) (&A);
	if (o_member (a, NA, px, py)) VP_ASSERT (O_IN_BOX (*e, px, py), "extents contain every member");
	/* tightness: each side of the extents is touched by some rectangle */
	int t = 0, l = 0, bo = 0, rg = 0;
	for (i = 0; i < NA; i++) { if (a[i].y1 == e->y1) t = 1; if (a[i].x1 == e->x1) l = 1; if (a[i].y2 == e->y2) bo = 1; if (a[i].x2 == e->x2) rg = 1; }
	VP_ASSERT (t && l && bo && rg, "extents are tight");
    }
    VP_ASSERT (PREFIX (_selfcheck) (&A), "selfcheck accepts every canonical region");
#elif Q == 4
    int dx, dy; VP_SYM (dx); VP_SYM (dy);
    int was = o_member (a, NA, px, py), clipped = 0;
    for (i = 0; i < NA; i++)
	if ((wide_t) a[i].x1 + dx < COORD_MIN || (wide_t) a[i].x2 + dx > COORD_MAX || (wide_t) a[i].y1 + dy < COORD_MIN || (wide_t) a[i].y2 + dy > COORD_MAX)
	    clipped = 1;
    PREFIX (_translate) (&A, dx, dy);
    wide_t qx = (wide_t) px + dx, qy = (wide_t) py + dy;
    int n = PIXREGION_NUMRECTS (&A);
    if (qx >= COORD_MIN && qx < COORD_MAX && qy >= COORD_MIN && qy < COORD_MAX)
	VP_ASSERT (o_member (PIXREGION_RECTS (&A), n, qx, qy) == was, "translate moves every representable point by (dx,dy)");
    VP_ASSERT (PREFIX (_not_empty) (&A) == (n > 0), "not_empty describes the translated set");
    if (n > 0)
    {
	VP_ASSERT (!(A.data && A.data->numRects == 1), "single rectangle stored without a list");
	VP_ASSERT (o_canonical (&A.extents, PIXREGION_RECTS (&A), n), "translated region is banded, sorted, gapped, non-empty rectangles, tight extents");
#ifdef KF_COALESCE
	/* recorded finding: the overflow path does not re-merge bands that become identical after clipping */
	VP_ASSERT (o_coalesced (PIXREGION_RECTS (&A), n), "bands that became identical by clipping are merged");
#else
	if (!clipped)
	    VP_ASSERT (o_coalesced (PIXREGION_RECTS (&A), n), "translated region has no mergeable bands");
#endif
    }
#elif Q == 5
    for (i = 0; i < NB; i++) VP_SYM_BOX_IDX (b, i);
    vp_mk_region (&B, &sb, b, NB);
    for (i = 0; i < NA; i++) VP_ASSUME (a[i].x1 >= 0 && a[i].x2 <= GRID && a[i].y1 >= 0 && a[i].y2 <= GRID);
    for (i = 0; i < NB; i++) VP_ASSUME (b[i].x1 >= 0 && b[i].x2 <= GRID && b[i].y1 >= 0 && b[i].y2 <= GRID);
#ifdef EMPTY_VARIANT
    /* different representations of the empty region */
    { static region_data_type_t zero = { 0, 0 }; B.data = EMPTY_VARIANT == 1 ? &zero : pixman_region_empty_data;
      VP_SYM_BOX (B.extents); if (EMPTY_VARIANT == 2) { B.extents.x2 = B.extents.x1; B.extents.y2 = B.extents.y1; } }
#endif
    unsigned long ma = grid_mask (a, NA), mb = grid_mask (b, NB);
    VP_ASSERT (PREFIX (_equal) (&A, &B) == (ma == mb), "equal() is TRUE exactly when the point sets are equal");
    VP_ASSERT (PREFIX (_equal) (&B, &A) == (ma == mb), "equal() is symmetric");
    if (ma == mb && NA == NB)
	for (i = 0; i < NA; i++)
	    VP_ASSERT (a[i].x1 == b[i].x1 && a[i].x2 == b[i].x2 && a[i].y1 == b[i].y1 && a[i].y2 == b[i].y2, "same points => identical rectangle lists");
    if (ma == mb) VP_ASSERT (NA == NB, "same points => same rectangle count");
#endif
    VP_END ();
}
#ifdef VP_REPLAY
int main (void) { harness (); return 0; }
#endif
