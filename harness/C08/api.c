/* C08 (API): pixman_image_composite32 (OP_SRC, a8r8g8b8 -> a8r8g8b8) with a
 * transformed source: every destination pixel equals the reference sample at
 * the transformed position of its centre - whichever internal fetcher handles
 * the request (scaled fast paths, affine fetchers, general projective path).
 * Transform -DMSEL from a menu, -DREPEAT, nearest filter; 2x2 source pixels
 * symbolic, 3x2 destination.  Reference position: exact rational arithmetic
 * (__int128); affine positions are rounded to the nearest 1/65536 as
 * pixman_transform_point does, projective quotients may land anywhere within
 * 1/65536 of the exact value (the statement does not fix their rounding).    */
#include "api_common.h"
#define SW 2
#define SH 2
static const pixman_fixed_t mats[][9] = {
    { 32768, 0, 0,  0, 32768, 0,  0, 0, 65536 },			/* 0.5 scale */
    { 98304, 0, -81920,  0, 65536, 16384,  0, 0, 65536 },		/* 1.5 scale, negative translation */
    { 0, -65536, 131072,  65536, 0, 0,  0, 0, 65536 },			/* rotate 90 */
    { 65536, 26214, -45875,  -19661, 65536, 3277,  0, 0, 65536 },	/* shear */
    { 65536, 0, -196608,  0, 65536, 0,  0, 0, 196608 },		/* projective, constant w = 3 */
    { 65536, 0, -65536,  0, 65536, 0,  13107, 0, 65536 },		/* projective, w varies along x */
    { -65536, 0, 98304,  0, -65536, 98304,  0, 0, 65536 },		/* rotate 180 */
};
static uint32_t pix[SH][SW];
static int o_floor_div (__int128 a, __int128 b) { __int128 q = a / b; if ((a % b != 0) && ((a < 0) != (b < 0))) q--; return (int) q; }
static int o_repeat (int c, int size, int *valid)
{
    *valid = 1;
    switch (REPEAT)
    {
    case PIXMAN_REPEAT_NONE:   if (c < 0 || c >= size) *valid = 0; return c;
    case PIXMAN_REPEAT_NORMAL: return c - size * o_floor_div (c, size);
    case PIXMAN_REPEAT_PAD:    return c < 0 ? 0 : c >= size ? size - 1 : c;
    default: { int m = c - 2 * size * o_floor_div (c, 2 * size); return m >= size ? 2 * size - 1 - m : m; }
    }
}
static uint32_t o_texel (int x, int y)
{
    int vx, vy, rx = o_repeat (x, SW, &vx), ry = o_repeat (y, SH, &vy);
    return (vx && vy) ? pix[ry][rx] : 0;
}

void harness (void)
{
    uint32_t s[SW * SH], d[3 * 2]; int i, dx, dy; pixman_transform_t t;
    for (i = 0; i < SW * SH; i++) { VP_SYM_IDX (s, i); pix[i / SW][i % SW] = s[i]; }
    for (i = 0; i < 6; i++) d[i] = 0x12345678;
    pixman_image_t *src = vp_img (PIXMAN_a8r8g8b8, SW, SH, s, SW), *dst = vp_img (PIXMAN_a8r8g8b8, 3, 2, d, 3);
    for (i = 0; i < 9; i++) t.matrix[i / 3][i % 3] = mats[MSEL][i];
    VP_ASSUME (pixman_image_set_transform (src, &t));
    VP_ASSUME (pixman_image_set_filter (src, PIXMAN_FILTER_NEAREST, NULL, 0));
    pixman_image_set_repeat (src, REPEAT);
    pixman_image_composite32 (PIXMAN_OP_SRC, src, NULL, dst, 0, 0, 0, 0, 0, 0, 3, 2);
    for (dy = 0; dy < 2; dy++) for (dx = 0; dx < 3; dx++)
    {
	/* centre (dx+0.5, dy+0.5) in 16.16; products in 32.32 */
	__int128 cx = (__int128) (2 * dx + 1) * 32768, cy = (__int128) (2 * dy + 1) * 32768;
	__int128 X = mats[MSEL][0] * cx + mats[MSEL][1] * cy + (__int128) mats[MSEL][2] * 65536;
	__int128 Y = mats[MSEL][3] * cx + mats[MSEL][4] * cy + (__int128) mats[MSEL][5] * 65536;
	__int128 Wv = mats[MSEL][6] * cx + mats[MSEL][7] * cy + (__int128) mats[MSEL][8] * 65536;
	uint32_t got = d[dy * 3 + dx];
	if (mats[MSEL][6] == 0 && mats[MSEL][7] == 0 && mats[MSEL][8] == 65536)
	{
	    /* affine: position rounded to nearest 1/65536 (ties either way) */
	    int xa = o_floor_div (X + 32768, 65536), xb = o_floor_div (X + 32767, 65536), ya = o_floor_div (Y + 32768, 65536), yb = o_floor_div (Y + 32767, 65536);
	    uint32_t w1 = o_texel (o_floor_div ((__int128) xa - 1, 65536), o_floor_div ((__int128) ya - 1, 65536));
	    uint32_t w2 = o_texel (o_floor_div ((__int128) xb - 1, 65536), o_floor_div ((__int128) yb - 1, 65536));
	    VP_ASSERT (got == w1 || got == w2, "affine: destination pixel == nearest texel at the transformed centre after the repeat mode");
	}
	else if (Wv != 0)
	{
	    /* projective: exact position X/W in 16.16 units is (X * 65536) / W / 65536; accept any position within one unit */
	    __int128 q = (X * 65536) / Wv, r = (Y * 65536) / Wv;	/* exact quotient in 16.16 units, truncated */
	    int ok = 0, ex, ey;
	    for (ex = -2; ex <= 2; ex++) for (ey = -2; ey <= 2; ey++)
	    {
		__int128 px = q + ex, py = r + ey;	/* candidate 16.16 positions */
		if (got == o_texel (o_floor_div (px - 1, 65536), o_floor_div (py - 1, 65536))) ok = 1;
	    }
	    VP_ASSERT (ok, "projective: destination pixel == nearest texel at a position within 2/65536 of the exact quotient");
	}
    }
    VP_END ();
}
#ifdef VP_REPLAY
int main (void) { harness (); return 0; }
#endif
