/* C08: kernel alignment of the convolution samplers of the real
 * pixman-bits-image.c, per pixman/rounding.txt.  The kernel is a DELTA (a
 * single coefficient 1.0 at a symbolic index, per phase for the separable
 * filter), so the sampler's output must be exactly the texel that the
 * reference places under that coefficient:
 *   convolution:            first texel k = floor (x - (width-1)/2 - 1/65536)
 *   separable convolution:  x first rounded to the centre of its sub-pixel
 *                           phase, then the same rule; phase selects the row
 *                           of the coefficient table
 * after the repeat mode.  -DSEP 0|1, -DCW -DCH kernel size, -DXB -DYB phase
 * bits, -DREPEAT.  Position (+-6 px), delta indices and source pixels symbolic. */
#include "vp.h"
#include <config.h>
#include "pixman-bits-image.c"
#define SW 3
#define SH 2
static uint32_t pix[SH][SW];
static uint32_t vp_fetch (bits_image_t *im, int x, int y)
{
    VP_ASSERT (x >= 0 && x < SW && y >= 0 && y < SH, "texel coordinates inside the image");
    return pix[y][x];
}
static long o_fdiv (long a, long b) { long q = a / b; if ((a % b != 0) && ((a < 0) != (b < 0))) q--; return q; }
static int o_repeat (int c, int size, int *valid)
{
    *valid = 1;
    switch (REPEAT)
    {
    case PIXMAN_REPEAT_NONE:   if (c < 0 || c >= size) *valid = 0; return c;
    case PIXMAN_REPEAT_NORMAL: return c - size * (int) o_fdiv (c, size);
    case PIXMAN_REPEAT_PAD:    return c < 0 ? 0 : c >= size ? size - 1 : c;
    default: { int m = c - 2 * size * (int) o_fdiv (c, 2 * size); return m >= size ? 2 * size - 1 - m : m; }
    }
}
static uint32_t o_texel (int x, int y)
{
    int vx, vy, rx = o_repeat (x, SW, &vx), ry = o_repeat (y, SH, &vy);
    return (vx && vy) ? pix[ry][rx] : 0;
}
/* first texel covered by a kernel of n taps centred on position p (16.16) */
static int o_first (long p, int n) { return (int) o_fdiv (p - ((long) (n - 1) * 65536) / 2 - 1, 65536); }

void harness (void)
{
    static bits_image_t img; pixman_fixed_t x, y; uint32_t out = 0xdeadbeef; int i, j;
    for (i = 0; i < SH; i++) for (j = 0; j < SW; j++) VP_SYM_IDX2 (pix, i, j);
    VP_SYM (x); VP_SYM (y);
    VP_ASSUME (x >= -(6 << 16) && x <= (6 << 16) && y >= -(6 << 16) && y <= (6 << 16));
    img.width = SW; img.height = SH; img.common.repeat = REPEAT; img.fetch_pixel_32 = vp_fetch;
#if !SEP
    static pixman_fixed_t params[2 + CW * CH]; int kx, ky;
    VP_SYM (kx); VP_SYM (ky); VP_ASSUME (kx >= 0 && kx < CW && ky >= 0 && ky < CH);
    params[0] = pixman_int_to_fixed (CW); params[1] = pixman_int_to_fixed (CH);
    for (i = 0; i < CW * CH; i++) params[2 + i] = 0;
    params[2 + ky * CW + kx] = pixman_fixed_1;
    img.common.filter_params = params; img.common.n_filter_params = 2 + CW * CH;
    bits_image_fetch_pixel_convolution (&img, x, y, fetch_pixel_no_alpha_32, &out, accum_32, reduce_32);
    VP_ASSERT (out == o_texel (o_first (x, CW) + kx, o_first (y, CH) + ky), "convolution: coefficient (kx,ky) weighs the texel rounding.txt places under it");
#else
    static pixman_fixed_t params[4 + (1 << XB) * CW + (1 << YB) * CH]; int tx[1 << XB], ty[1 << YB];
    params[0] = pixman_int_to_fixed (CW); params[1] = pixman_int_to_fixed (CH); params[2] = pixman_int_to_fixed (XB); params[3] = pixman_int_to_fixed (YB);
    for (i = 0; i < (1 << XB) * CW + (1 << YB) * CH; i++) params[4 + i] = 0;
    for (i = 0; i < (1 << XB); i++) { VP_SYM_IDX (tx, i); VP_ASSUME (tx[i] >= 0 && tx[i] < CW); params[4 + i * CW + tx[i]] = pixman_fixed_1; }
    for (i = 0; i < (1 << YB); i++) { VP_SYM_IDX (ty, i); VP_ASSUME (ty[i] >= 0 && ty[i] < CH); params[4 + (1 << XB) * CW + i * CH + ty[i]] = pixman_fixed_1; }
    img.common.filter_params = params; img.common.n_filter_params = 4 + (1 << XB) * CW + (1 << YB) * CH;
    bits_image_fetch_pixel_separable_convolution (&img, x, y, fetch_pixel_no_alpha_32, &out, accum_32, reduce_32);
    {
	long xi = o_fdiv (x, 65536), yi = o_fdiv (y, 65536);
	int px = (int) (((x - xi * 65536) << XB) >> 16), py = (int) (((y - yi * 65536) << YB) >> 16);		/* sub-pixel phase */
	long xc = xi * 65536 + ((long) px * 65536 + 32768) / (1 << XB), yc = yi * 65536 + ((long) py * 65536 + 32768) / (1 << YB);	/* phase centre */
	VP_ASSERT (out == o_texel (o_first (xc, CW) + tx[px], o_first (yc, CH) + ty[py]), "separable convolution: phase selects the table row, the kernel is aligned at the phase centre");
    }
#endif
    VP_END ();
}
#ifdef VP_REPLAY
int main (void) { harness (); return 0; }
#endif
