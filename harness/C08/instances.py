from vp.core import Inst, API_UNWINDSET

LEVEL = "model_checking"
REPEATS = ("NONE", "NORMAL", "PAD", "REFLECT")
PHASES = ((0x8000, 0x8000), (0x0000, 0x4000), (0x7fff, 0xffff), (0xc200, 0x8200))


def instances(tier):
    L = []
    sizes = ((2, 3), (1, 1)) if tier == "quick" else ((2, 3), (1, 1), (3, 2), (1, 2))
    for rp in REPEATS:
        for sw, sh in sizes:
            L.append(Inst("nearest-%s-%dx%d" % (rp, sw, sh), "C08/pixel.c", {"REPEAT": "PIXMAN_REPEAT_" + rp, "FILT": 0, "SW": sw, "SH": sh}, link=[], unwind=20,
                          desc={"what": "bits_image_fetch_pixel_nearest == texel at floor(x - 1/65536) after the repeat mode; position (within +-8 px) and pixels symbolic"}))
        for fx, fy in (PHASES[:2] if tier == "quick" else PHASES):
            L.append(Inst("bilinear-%s-phase%04x-%04x" % (rp, fx, fy), "C08/pixel.c",
                          {"REPEAT": "PIXMAN_REPEAT_" + rp, "FILT": 1, "SW": 2, "SH": 3, "FRACX": fx, "FRACY": fy}, link=[], unwind=20, timeout=900,
                          desc={"what": "bits_image_fetch_pixel_bilinear_32 == 7-bit-weight blend of the four repeat-mapped neighbours; integer position and pixels symbolic, sub-pixel phase concrete"}))
    for rp in (("NONE",) if tier == "quick" else REPEATS):
        L.append(Inst("convolution-3x2-" + rp, "C08/conv.c", {"SEP": 0, "CW": 3, "CH": 2, "REPEAT": "PIXMAN_REPEAT_" + rp}, link=[], unwind=20, objbits=12, timeout=2400,
                      desc={"what": "bits_image_fetch_pixel_convolution with a delta kernel (symbolic tap): output == texel rounding.txt puts under that tap; position and pixels symbolic"}))
        L.append(Inst("separable-3x2-bits21-" + rp, "C08/conv.c", {"SEP": 1, "CW": 3, "CH": 2, "XB": 2, "YB": 1, "REPEAT": "PIXMAN_REPEAT_" + rp}, link=[], unwind=20, objbits=12, timeout=2400,
                      desc={"what": "bits_image_fetch_pixel_separable_convolution with one symbolic tap per phase: phase row selection and alignment at the phase centre per rounding.txt"}))
    for rp in (("PAD",) if tier == "quick" else REPEATS):
        L.append(Inst("separable-fastpath-3x2-bits21-" + rp, "C08/sepfast.c", {"CW": 3, "CH": 2, "XB": 2, "YB": 1, "RNAME": rp.lower(), "REPEAT": "PIXMAN_REPEAT_" + rp, "RANGE": 2 if tier == "quick" else 6},
                      link=["pixman-matrix.c"], unwind=20, objbits=12, timeout=2400,
                      desc={"what": "the specialised fetcher bits_image_fetch_separable_convolution_affine_<repeat>_a8r8g8b8 of pixman-fast-path.c, same delta-kernel reference; translation (+-2 px at quick, +-6 px at thorough tier, full sub-pixel resolution) and pixels symbolic"}))
    if tier == "thorough":
        L.append(Inst("convolution-4x3-NONE", "C08/conv.c", {"SEP": 0, "CW": 4, "CH": 3, "REPEAT": "PIXMAN_REPEAT_NONE"}, link=[], unwind=20, objbits=12, timeout=2400,
                      desc={"what": "even/odd kernel sizes"}))
    combos = [(0, "NONE"), (1, "PAD"), (2, "NORMAL"), (3, "REFLECT"), (4, "PAD"), (5, "NONE"), (6, "NORMAL")]
    if tier == "thorough":
        combos = [(m, r) for m in range(7) for r in REPEATS]
    for m, rp in combos:
        L.append(Inst("api-nearest-m%d-%s" % (m, rp), "C08/api.c", {"MSEL": m, "REPEAT": "PIXMAN_REPEAT_" + rp},
                      unwind=12, unwindset=API_UNWINDSET + ("memcmp.0:40",), objbits=12, timeout=900,
                      desc={"what": "composite32 with transformed source (menu incl. scale, rotate, shear, projective): each destination pixel == reference texel at the exactly computed centre position; source pixels symbolic"}))
    return L


TEXT = ("Bounded model checking of the real samplers against the rounding.txt reference written independently in the harness: "
        "bits_image_fetch_pixel_nearest (all repeat modes; sample position symbolic within +-8 pixels; source 1x1..3x2 with symbolic pixels) and "
        "bits_image_fetch_pixel_bilinear_32 (integer position symbolic, sub-pixel phase from a grid) with the real repeat() and "
        "bilinear_interpolation(); and, through pixman_image_composite32, that for a menu of scale / rotate / shear / projective transforms each "
        "destination pixel equals the reference texel at the exactly (128-bit) computed position of its centre, whichever fetcher is selected; "
        "convolution and separable-convolution samplers with delta kernels (symbolic tap per phase) weigh exactly the texel rounding.txt places under each tap.")
NOTE = ("Transforms at API level are concrete (menu of 7); bilinear weights concrete per instance (symbolic weights x symbolic pixels: no verdict "
        "in 600 s); general (non-delta) kernel weights and SIMD fetchers are not covered; the specialised separable-convolution affine fetcher of pixman-fast-path.c is covered for a8r8g8b8 with a symbolic translation (one repeat mode at quick tier, four at thorough).")
RULE = "C08 instance = sampler x repeat mode x (source size | phase) | API transform x repeat."
BOUNDS = {"position": "+-8 pixels, all 16 fractional bits (nearest)", "source": "<= 3x2", "api": "3x2 destination"}
OUTSIDE = ["convolution with general kernel weights; the specialised separable fetcher for x8r8g8b8/a8/r5g6b5 and with non-translation transforms", "symbolic transforms", "bilinear through the API", "SSE2/SSSE3 fetchers"]
ASSUMPTIONS = ["texel reader replaced by a harness function over a symbolic pixel array in the unit instances"]
