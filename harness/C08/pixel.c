/* C08: the per-pixel samplers of the real pixman-bits-image.c
 * (bits_image_fetch_pixel_nearest / _bilinear_32 with the real repeat() and
 * bilinear_interpolation() of pixman-inlines.h) against the reference of
 * pixman/rounding.txt: nearest takes floor (x - 1/65536); bilinear blends the
 * four neighbours of x - 1/2 with 7-bit weights; positions outside the image
 * are mapped by the repeat mode (NONE transparent, NORMAL modulo, PAD clamp,
 * REFLECT mirror).  -DREPEAT -DSW -DSH (source size, concrete) -DFILT 0|1.
 * Sample position (16.16, within +-8 pixels) and all source pixels symbolic. */
#include "vp.h"
#include <config.h>
#include "pixman-bits-image.c"
#ifndef SW
#define SW 2
#endif
#ifndef SH
#define SH 2
#endif
static uint32_t pix[SH][SW];
static uint32_t vp_fetch (bits_image_t *im, int x, int y)
{
    VP_ASSERT (x >= 0 && x < SW && y >= 0 && y < SH, "texel coordinates handed to the format reader lie inside the image");
    return pix[y][x];
}
/* independent reference */
static int o_floor_div (long a, long b) { long q = a / b; if ((a % b != 0) && ((a < 0) != (b < 0))) q--; return (int) q; }
static int o_repeat (int c, int size, int *valid)
{
    *valid = 1;
    switch (REPEAT)
    {
    case PIXMAN_REPEAT_NONE:   if (c < 0 || c >= size) *valid = 0; return c;
    case PIXMAN_REPEAT_NORMAL: return c - size * o_floor_div (c, size);
    case PIXMAN_REPEAT_PAD:    return c < 0 ? 0 : c >= size ? size - 1 : c;
    default: { int m = c - 2 * size * o_floor_div (c, 2 * size); return m >= size ? 2 * size - 1 - m : m; }
    }
}
static uint32_t o_texel (int x, int y)
{
    int vx, vy, rx = o_repeat (x, SW, &vx), ry = o_repeat (y, SH, &vy);
    if (!vx || !vy) return 0;
    return pix[ry][rx];
}

void harness (void)
{
    static bits_image_t img; pixman_fixed_t x, y; uint32_t out = 0xdeadbeef; int i, j, c;
    for (i = 0; i < SH; i++) for (j = 0; j < SW; j++) VP_SYM_IDX2 (pix, i, j);
    VP_SYM (x); VP_SYM (y);
    VP_ASSUME (x >= -(8 << 16) && x <= (8 << 16) && y >= -(8 << 16) && y <= (8 << 16));
#ifdef FRACX
    /* bilinear: sub-pixel phase concrete per instance (symbolic weights x symbolic pixels do not finish); integer position symbolic */
    VP_ASSUME ((x & 0xffff) == FRACX && (y & 0xffff) == FRACY);
#endif
    img.width = SW; img.height = SH; img.common.repeat = REPEAT; img.fetch_pixel_32 = vp_fetch;
#if FILT == 0
    bits_image_fetch_pixel_nearest (&img, x, y, fetch_pixel_no_alpha_32, &out);
    VP_ASSERT (out == o_texel (o_floor_div ((long) x - 1, 65536), o_floor_div ((long) y - 1, 65536)), "nearest: texel at floor (x - 1/65536) after the repeat mode");
#else
    bits_image_fetch_pixel_bilinear_32 (&img, x, y, fetch_pixel_no_alpha_32, &out);
    {
	long fx = (long) x - 32768, fy = (long) y - 32768;
	int ix = o_floor_div (fx, 65536), iy = o_floor_div (fy, 65536);
	int wx = (int) ((fx - (long) ix * 65536) >> 9), wy = (int) ((fy - (long) iy * 65536) >> 9);	/* 7-bit fractional weights */
	uint32_t tl = o_texel (ix, iy), tr = o_texel (ix + 1, iy), bl = o_texel (ix, iy + 1), br = o_texel (ix + 1, iy + 1);
	for (c = 0; c < 4; c++)
	{
	    unsigned v = ((tl >> (8 * c)) & 0xff) * (128 - wx) * (128 - wy) + ((tr >> (8 * c)) & 0xff) * wx * (128 - wy)
		       + ((bl >> (8 * c)) & 0xff) * (128 - wx) * wy + ((br >> (8 * c)) & 0xff) * wx * wy;
	    VP_ASSERT (((out >> (8 * c)) & 0xff) == (v >> 14), "bilinear: four neighbours blended with the 7-bit fractional weights");
	}
    }
#endif
    VP_END ();
}
#ifdef VP_REPLAY
int main (void) { harness (); return 0; }
#endif
