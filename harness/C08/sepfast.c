/* C08: the SPECIALISED separable-convolution fetcher of the real
 * pixman-fast-path.c (bits_image_fetch_separable_convolution_affine_<repeat>_a8r8g8b8,
 * what the fast-path level installs for affine transforms on a8r8g8b8/x8r8g8b8
 * sources) against the same rounding.txt reference as harness/C08/conv.c:
 * delta kernels with one symbolic tap per phase, so the output pixel must be
 * exactly the texel the reference places under that tap - x first rounded to
 * the centre of its sub-pixel phase, phase selects the row of the coefficient
 * table, then the repeat mode.  The transform is a symbolic translation
 * (+-RANGE px, default 6, full sub-pixel resolution); -DXB/-DYB phase bits (different on
 * purpose), -DCW/-DCH kernel size, -DRNAME/-DREPEAT repeat mode.              */
#include "vp.h"
#include <config.h>
#include "pixman-fast-path.c"
#define SW 3
#ifndef RANGE
#define RANGE 6
#endif
#define SH 2
#define PASTE_(a, b) a##b
#define PASTE(a, b) PASTE_ (a, b)
#define FETCHER PASTE (PASTE (bits_image_fetch_separable_convolution_affine_, RNAME), _a8r8g8b8)
static uint32_t pix[SH][SW];
static long o_fdiv (long a, long b) { long q = a / b; if ((a % b != 0) && ((a < 0) != (b < 0))) q--; return q; }
static int o_repeat (int c, int size, int *valid)
{
    *valid = 1;
    switch (REPEAT)
    {
    case PIXMAN_REPEAT_NONE:   if (c < 0 || c >= size) *valid = 0; return c;
    case PIXMAN_REPEAT_NORMAL: return c - size * (int) o_fdiv (c, size);
    case PIXMAN_REPEAT_PAD:    return c < 0 ? 0 : c >= size ? size - 1 : c;
    default: { int m = c - 2 * size * (int) o_fdiv (c, 2 * size); return m >= size ? 2 * size - 1 - m : m; }
    }
}
static uint32_t o_texel (int x, int y)
{
    int vx, vy, rx = o_repeat (x, SW, &vx), ry = o_repeat (y, SH, &vy);
    return (vx && vy) ? pix[ry][rx] : 0;
}
static int o_first (long p, int n) { return (int) o_fdiv (p - ((long) (n - 1) * 65536) / 2 - 1, 65536); }

void harness (void)
{
    static pixman_image_t img; static pixman_transform_t t; pixman_iter_t iter; pixman_fixed_t dx, dy; uint32_t out[1] = { 0xdeadbeef }; int i, j;
    static pixman_fixed_t params[4 + (1 << XB) * CW + (1 << YB) * CH]; int tx[1 << XB], ty[1 << YB];
    for (i = 0; i < SH; i++) for (j = 0; j < SW; j++) VP_SYM_IDX2 (pix, i, j);
    VP_SYM (dx); VP_SYM (dy);
    VP_ASSUME (dx >= -(RANGE << 16) && dx <= (RANGE << 16) && dy >= -(RANGE << 16) && dy <= (RANGE << 16));
    pixman_transform_init_identity (&t); t.matrix[0][2] = dx; t.matrix[1][2] = dy;
    img.type = BITS; img.bits.format = PIXMAN_a8r8g8b8; img.bits.width = SW; img.bits.height = SH; img.bits.bits = &pix[0][0]; img.bits.rowstride = SW;
    img.common.repeat = REPEAT; img.common.transform = &t;
    params[0] = pixman_int_to_fixed (CW); params[1] = pixman_int_to_fixed (CH); params[2] = pixman_int_to_fixed (XB); params[3] = pixman_int_to_fixed (YB);
    for (i = 0; i < (1 << XB) * CW + (1 << YB) * CH; i++) params[4 + i] = 0;
    for (i = 0; i < (1 << XB); i++) { VP_SYM_IDX (tx, i); VP_ASSUME (tx[i] >= 0 && tx[i] < CW); params[4 + i * CW + tx[i]] = pixman_fixed_1; }
    for (i = 0; i < (1 << YB); i++) { VP_SYM_IDX (ty, i); VP_ASSUME (ty[i] >= 0 && ty[i] < CH); params[4 + (1 << XB) * CW + i * CH + ty[i]] = pixman_fixed_1; }
    img.common.filter_params = params; img.common.n_filter_params = 4 + (1 << XB) * CW + (1 << YB) * CH;
    iter.image = &img; iter.x = 0; iter.y = 0; iter.width = 1; iter.buffer = out;
    FETCHER (&iter, NULL);
    {
	/* sample position of destination pixel (0,0): its centre through the transform */
	long x = (long) dx + 32768, y = (long) dy + 32768;
	long xi = o_fdiv (x, 65536), yi = o_fdiv (y, 65536);
	int px = (int) (((x - xi * 65536) << XB) >> 16), py = (int) (((y - yi * 65536) << YB) >> 16);
	long xc = xi * 65536 + ((long) px * 65536 + 32768) / (1 << XB), yc = yi * 65536 + ((long) py * 65536 + 32768) / (1 << YB);
	VP_ASSERT (out[0] == o_texel (o_first (xc, CW) + tx[px], o_first (yc, CH) + ty[py]), "specialised separable fetcher: phase selects the table row, the kernel is aligned at the phase centre");
    }
    VP_END ();
}
#ifdef VP_REPLAY
int main (void) { harness (); return 0; }
#endif
