/* C09: the opacity rules of the real compute_image_info (pixman-image.c) on an
 * ARBITRARY image description (all properties symbolic): FAST_PATH_IS_OPAQUE
 * may only be set if every sample that can contribute has alpha 1, i.e.
 *   bits:     the format stores no alpha (and is not a palette format), the
 *             image repeats (so nothing outside is transparent), no alpha map,
 *             no convolution filter, not component-alpha
 *   solid:    alpha == 0xffff, and the three conditions above
 *   gradient: repeating, every stop opaque (radial: defined on the whole plane)
 * FAST_PATH_SAMPLES_OPAQUE: same without the repeat condition (bits only).   */
#include "vp.h"
#include <config.h>
#include "pixman-image.c"

void harness (void)
{
    static pixman_image_t img, amap;
    static pixman_transform_t tr;
    pixman_gradient_stop_t store[5];
    int i, has_t, has_amap, n_stops; unsigned ty;
    VP_SYM (ty); VP_ASSUME (ty <= SOLID);
    img.type = ty;
    VP_SYM (img.common.repeat); VP_SYM (img.common.filter); VP_SYM (img.common.component_alpha);
    VP_SYM (has_t); VP_SYM (has_amap);
    for (i = 0; i < 3; i++) { int j; for (j = 0; j < 3; j++) VP_SYM_IDX2 (tr.matrix, i, j); }
    img.common.transform = has_t ? &tr : NULL;
    amap.type = BITS; VP_SYM (amap.bits.format);
    img.common.alpha_map = has_amap ? &amap.bits : NULL;
    if (ty == BITS)
    {
	VP_SYM (img.bits.format); VP_SYM (img.bits.width); VP_SYM (img.bits.height);
	VP_ASSUME (img.bits.width >= 1 && img.bits.height >= 1);
	int acc; VP_SYM (acc); img.bits.read_func = acc ? (pixman_read_memory_func_t) 1 : 0; img.bits.write_func = 0;
    }
    else if (ty == SOLID)
    {
	VP_SYM (img.solid.color.alpha);
    }
    else
    {
	VP_SYM (n_stops); VP_ASSUME (n_stops >= 1 && n_stops <= 3);
	for (i = 0; i < 3; i++) VP_SYM_IDXF (store, i + 1, color.alpha);
	img.gradient.stops = store + 1; img.gradient.n_stops = n_stops;
	if (ty == RADIAL) { int ai; VP_SYM (ai); img.radial.a = ai; }
    }
    compute_image_info (&img);
    uint32_t f = img.common.flags;
    int conv = img.common.filter == PIXMAN_FILTER_CONVOLUTION || img.common.filter == PIXMAN_FILTER_SEPARABLE_CONVOLUTION;
    int common_ok = !img.common.alpha_map && !conv && !img.common.component_alpha;
    if (f & FAST_PATH_IS_OPAQUE)
    {
	VP_ASSERT (common_ok, "opaque only without alpha map, convolution filter and component alpha");
	if (ty == BITS)
	{
	    VP_ASSERT (PIXMAN_FORMAT_A (img.bits.format) == 0 && PIXMAN_FORMAT_TYPE (img.bits.format) != PIXMAN_TYPE_COLOR && PIXMAN_FORMAT_TYPE (img.bits.format) != PIXMAN_TYPE_GRAY,
		       "opaque bits image: format stores no alpha and is not indexed");
	    VP_ASSERT (img.common.repeat != PIXMAN_REPEAT_NONE, "opaque bits image: samples outside a non-repeating image are transparent");
	}
	else if (ty == SOLID)
	    VP_ASSERT (img.solid.color.alpha == 0xffff, "opaque solid: alpha is 1");
	else
	{
	    VP_ASSERT (img.common.repeat != PIXMAN_REPEAT_NONE, "opaque gradient: repeating");
	    for (i = 0; i < 3; i++) if (i < n_stops) VP_ASSERT (store[i + 1].color.alpha == 0xffff, "opaque gradient: every stop opaque");
	    if (ty == RADIAL) VP_ASSERT (img.radial.a < 0, "opaque radial gradient: defined on the whole plane");
	}
    }
    if (f & FAST_PATH_SAMPLES_OPAQUE)
	VP_ASSERT (ty == BITS && common_ok && PIXMAN_FORMAT_A (img.bits.format) == 0 && PIXMAN_FORMAT_TYPE (img.bits.format) != PIXMAN_TYPE_COLOR && PIXMAN_FORMAT_TYPE (img.bits.format) != PIXMAN_TYPE_GRAY,
		   "samples-opaque only for alpha-less, non-indexed bits images without alpha map / convolution / component alpha");
    /* completeness for the plain case: an alpha-less repeating bits image with nothing else is recognised (no lost optimisation is not required, but a wrong negative here would hide the paths under test) */
    if (ty == BITS && img.bits.format == PIXMAN_x8r8g8b8 && img.common.repeat == PIXMAN_REPEAT_NORMAL && common_ok)
	VP_ASSERT (f & FAST_PATH_IS_OPAQUE, "x8r8g8b8 repeating image is recognised as opaque");
    if (ty == BITS && (img.common.flags & FAST_PATH_NO_ACCESSORS)) VP_ASSERT (!img.bits.read_func && !img.bits.write_func, "NO_ACCESSORS only without callbacks");
    if (!has_amap || ty != BITS) VP_ASSERT (f & FAST_PATH_NO_ALPHA_MAP, "NO_ALPHA_MAP when there is none"); else VP_ASSERT (!(f & FAST_PATH_NO_ALPHA_MAP), "alpha map is flagged");
    VP_END ();
}
#ifdef VP_REPLAY
int main (void) { harness (); return 0; }
#endif
