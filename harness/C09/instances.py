from vp.core import Inst, API_UNWINDSET

LEVEL = "model_checking"
PD_OPS = {"CLEAR": 0, "SRC": 1, "DST": 2, "OVER": 3, "OVER_REVERSE": 4, "IN": 5, "IN_REVERSE": 6, "OUT": 7,
          "OUT_REVERSE": 8, "ATOP": 9, "ATOP_REVERSE": 10, "XOR": 11, "ADD": 12}
SH = {"unit": "pixman-combine32.c", "header": "pixman-combine32.h", "shim": "C01/rebind.h"}
CELLS = {1: "src-opaque", 2: "dst-opaque", 3: "both-opaque"}
MODES = {0: "nomask", 1: "unified", 2: "ca"}


def instances(tier):
    L = []
    for name, op in PD_OPS.items():
        for cell in (1, 2, 3):
            for mode in ((0, 2) if tier == "quick" else (0, 1, 2)):
                L.append(Inst("table-%s-%s-%s" % (name, CELLS[cell], MODES[mode]), "C09/table.c",
                              {"OP": op, "CELL": cell, "MODE": mode, "VP_UF": None}, link=[], unwind=4, shadow=SH,
                              desc={"what": "operator_table[op][cell] is equivalent to op on every pixel pair satisfying the cell's premise (real combiners both sides)"}))
    pairs = [(0, "OVER", "NONE", 1), (0, "ATOP", "NORMAL", 0), (1, "ATOP_REVERSE", "NORMAL", 0), (1, "XOR", "NONE", 0)]
    if tier == "thorough":
        pairs = [(r, o, rp, sx) for r in (0, 1) for o in PD_OPS if o not in ("DST",) for rp in ("NONE", "NORMAL", "PAD") for sx in ((0, 1) if r == 0 else (0,))]
    for role, opn, rep, sx in pairs:
        L.append(Inst("pairs-%s-%s-%s-sx%d" % ("src" if role == 0 else "dst", opn, rep, sx), "C09/pairs.c",
                      {"ROLE": role, "OP": PD_OPS[opn], "REP": "PIXMAN_REPEAT_" + rep, "SX": sx, "VP_REL": None},
                      unwind=12, unwindset=API_UNWINDSET, objbits=12, timeout=900,
                      desc={"what": "same opaque picture as x8r8g8b8 vs a8r8g8b8(alpha 255) through pixman_image_composite32: equal results; pixels symbolic"}))
    L.append(Inst("flags-opacity-rules", "C09/flags.c", {}, link=[], unwind=5,
                  desc={"what": "compute_image_info on an arbitrary image description: IS_OPAQUE / SAMPLES_OPAQUE only when every contributing sample has alpha 1"}))
    return L


TEXT = ("Bounded model checking: (1) for every Porter-Duff operator and each opacity cell, the operator selected by the real optimize_operator / "
        "operator_table produces, through the real 8-bit combiners, the bit-identical destination for EVERY pixel pair satisfying the cell's "
        "premise (unmasked, opaque unified mask, opaque component-alpha mask), and a non-opaque mask cancels the source-opaque reduction; "
        "(2) compute_image_info on an arbitrary image description sets IS_OPAQUE / SAMPLES_OPAQUE only when every contributing sample has "
        "alpha 1 (format, repeat, alpha map, convolution, component alpha, gradient stops, radial coverage); (3) through "
        "pixman_image_composite32 an x8r8g8b8 picture and the same picture as a8r8g8b8 with alpha 255 give equal results as source or destination.")
NOTE = ("Combiner comparison uses the C01 assume-guarantee split (macros re-bound to proven specs, o_mul255 uninterpreted). SATURATE's reductions "
        "(float pipeline) and the NEAREST/BILINEAR_OPAQUE promotion in composite32 are not covered; solid and r5g6b5 presentations only at thorough tier if at all.")
RULE = "C09 instance = table cell (operator x opacity cell x mask mode) | flag rules | API presentation pair."
BOUNDS = {"table": "all 2^64..2^96 pixel combinations per cell", "pairs": "2x1 images, geometry concrete"}
OUTSIDE = ["SATURATE and the float pipeline", "transforms and filters in the API pairs", "solid-colour and r5g6b5 presentations"]
ASSUMPTIONS = ["C01 macro lemmas (re-bound UN8x4 macros)"]
