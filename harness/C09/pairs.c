/* C09 (API): the same fully opaque picture presented as x8r8g8b8 (alpha bits
 * arbitrary garbage) and as a8r8g8b8 with alpha 255, as SOURCE (-DROLE=0) or
 * as DESTINATION (-DROLE=1), gives the same result for operator -DOP through
 * the real pixman_image_composite32.  -DREP repeat mode of the source,
 * -DSX source x offset (a value that makes the request reach outside a
 * non-repeating source).  Pixels symbolic, geometry concrete.               */
#include "api_common.h"
#define W 2
void harness (void)
{
    uint32_t pic[W], other[W], pa[W], pb[W], oa[W], ob[W]; int i;
    for (i = 0; i < W; i++) { VP_SYM_IDX (pic, i); VP_SYM_IDX (other, i); pa[i] = pic[i]; pb[i] = pic[i] | 0xff000000u; oa[i] = ob[i] = other[i]; }
#if ROLE == 0
    pixman_image_t *sa = vp_img (PIXMAN_x8r8g8b8, W, 1, pa, W), *sb = vp_img (PIXMAN_a8r8g8b8, W, 1, pb, W);
    pixman_image_t *da = vp_img (PIXMAN_a8r8g8b8, W, 1, oa, W), *db = vp_img (PIXMAN_a8r8g8b8, W, 1, ob, W);
    pixman_image_set_repeat (sa, REP); pixman_image_set_repeat (sb, REP);
    pixman_image_composite32 (OP, sa, NULL, da, SX, 0, 0, 0, 0, 0, W, 1);
    pixman_image_composite32 (OP, sb, NULL, db, SX, 0, 0, 0, 0, 0, W, 1);
    for (i = 0; i < W; i++) VP_ASSERT (oa[i] == ob[i], "x8r8g8b8 source == a8r8g8b8 source with alpha 255");
#else
    pixman_image_t *sa = vp_img (PIXMAN_a8r8g8b8, W, 1, oa, W), *sb = vp_img (PIXMAN_a8r8g8b8, W, 1, ob, W);
    pixman_image_t *da = vp_img (PIXMAN_x8r8g8b8, W, 1, pa, W), *db = vp_img (PIXMAN_a8r8g8b8, W, 1, pb, W);
    pixman_image_set_repeat (da, REP); pixman_image_set_repeat (db, REP);	/* a repeating x8r8g8b8 destination is flagged opaque */
    pixman_image_composite32 (OP, sa, NULL, da, 0, 0, 0, 0, 0, 0, W, 1);
    pixman_image_composite32 (OP, sb, NULL, db, 0, 0, 0, 0, 0, 0, W, 1);
    for (i = 0; i < W; i++) VP_ASSERT ((pa[i] & 0x00ffffffu) == (pb[i] & 0x00ffffffu), "x8r8g8b8 destination == colour channels of an a8r8g8b8 destination with alpha 255");
#endif
    VP_END ();
}
#ifdef VP_REPLAY
int main (void) { harness (); return 0; }
#endif
