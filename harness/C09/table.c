/* C09: operator strength reduction.  For operator -DOP and opacity cell
 * -DCELL (1 source opaque, 2 destination opaque, 3 both) the operator chosen by
 * the real optimize_operator()/operator_table (pixman.c) produces, through the
 * real 8-bit combiners (pixman-combine32.c), bit-identically what the original
 * operator produces, for every pixel pair satisfying the cell's premise.
 * -DMODE 0 no mask, 1 unified mask (opaque: the reduction only applies when
 * source AND mask are opaque), 2 component-alpha mask (all channels 255).
 * The UN8x4 macros are re-bound to their proven specifications (C01 lemmas). */
#include "vp.h"
#include <config.h>
#include "pixman.c"
#include VP_SHADOW_UNIT

void harness (void)
{
    uint32_t s, d, m, d1, d2;
    pixman_implementation_t imp;
    VP_SYM (s); VP_SYM (d); VP_SYM (m);
    uint32_t sf = 0, mf = FAST_PATH_IS_OPAQUE, df = 0;
    if (CELL & 1) { sf = FAST_PATH_IS_OPAQUE; VP_ASSUME ((s >> 24) == 0xff); }
    if (CELL & 2) { df = FAST_PATH_IS_OPAQUE; VP_ASSUME ((d >> 24) == 0xff); }
#if MODE == 1
    VP_ASSUME ((m >> 24) == 0xff);		/* an opaque mask; a non-opaque one cancels the source-opaque reduction */
#elif MODE == 2
    VP_ASSUME (m == 0xffffffffu);
#endif
    pixman_op_t op2 = optimize_operator (OP, sf, mf, df);
    VP_ASSERT (op2 <= PIXMAN_OP_SATURATE || op2 == OP, "reduced operator is a Porter-Duff operator");
    memset (&imp, 0, sizeof imp);
    _pixman_setup_combiner_functions_32 (&imp);
    d1 = d2 = d;
#if MODE == 2
    if (OP != PIXMAN_OP_DST) imp.combine_32_ca[OP] (&imp, OP, &d1, &s, &m, 1);
    if (op2 != PIXMAN_OP_DST) imp.combine_32_ca[op2] (&imp, op2, &d2, &s, &m, 1);
#else
    imp.combine_32[OP] (&imp, OP, &d1, &s, MODE ? &m : NULL, 1);
    imp.combine_32[op2] (&imp, op2, &d2, &s, MODE ? &m : NULL, 1);
#endif
    VP_ASSERT (d1 == d2, "reduced operator gives the bit-identical destination");
    /* a non-opaque mask must cancel the source-opaque reduction */
    VP_ASSERT (optimize_operator (OP, FAST_PATH_IS_OPAQUE, 0, df) == optimize_operator (OP, 0, 0, df), "source counts as opaque only if the mask is opaque too");
    VP_END ();
}
#ifdef VP_REPLAY
int main (void) { harness (); return 0; }
#endif
