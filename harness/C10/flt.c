/* C10 float widening/narrowing of the real pixman-utils.c:
 * pixman_expand_to_float for -DFMT (channel sizes from the format code) and
 * pixman_contract_from_float / float_to_unorm.  IEEE single precision,
 * bit-precise.                                                             */
#include "vp.h"
#include <config.h>
#include "pixman-utils.c"
#include "arith.h"

void harness (void)
{
    uint32_t p[2], back[2]; argb_t f[2]; int c;
    VP_SYM_IDX (p, 0); VP_SYM_IDX (p, 1);
    pixman_expand_to_float (f, p, FMT, 2);
    int n[4] = { PIXMAN_FORMAT_B (FMT), PIXMAN_FORMAT_G (FMT), PIXMAN_FORMAT_R (FMT), PIXMAN_FORMAT_A (FMT) };
    if (!PIXMAN_FORMAT_VIS (FMT)) n[0] = n[1] = n[2] = n[3] = 8;
    for (c = 0; c < 4; c++)
    {
	float v0 = c == 0 ? f[0].b : c == 1 ? f[0].g : c == 2 ? f[0].r : f[0].a;
	float v1 = c == 0 ? f[1].b : c == 1 ? f[1].g : c == 2 ? f[1].r : f[1].a;
	if (n[c] == 0)
	    VP_ASSERT (v0 == (c == 3 ? 1.0f : 0.0f), "absent alpha reads as 1.0, absent colour as 0.0");
	else
	{
	    /* the n most significant bits of the 8-bit channel are the channel's value */
	    unsigned u0 = o_ch (p[0], c) >> (8 - n[c]), u1 = o_ch (p[1], c) >> (8 - n[c]), max = (1u << n[c]) - 1;
	    VP_ASSERT (v0 >= 0.0f && v0 <= 1.0f, "float channel within [0,1]");
	    if (u0 == 0) VP_ASSERT (v0 == 0.0f, "0 widens to 0.0");
	    if (u0 == max) VP_ASSERT (v0 == 1.0f, "maximum widens to 1.0");
	    if (u0 < u1) VP_ASSERT (v0 < v1, "float widening is strictly monotone");
	    if (u0 == u1) VP_ASSERT (v0 == v1, "float widening is a function of the channel value");
	}
    }
    /* narrowing back to 8 bits: exact round trip of every 8-bit channel value */
    pixman_expand_to_float (f, p, PIXMAN_a8r8g8b8, 2);
    pixman_contract_from_float (back, f, 2);
    VP_ASSERT (back[0] == p[0] && back[1] == p[1], "contract (expand (a8r8g8b8 pixel)) is the identity");
    {
	/* float_to_unorm: clamps, 0 -> 0, 1 -> max, monotone, for the depths used by wide formats */
	float a, b; VP_SYM (a); VP_SYM (b);
	int bits = NBITS;
	uint16_t ua = pixman_float_to_unorm (a, bits), ub = pixman_float_to_unorm (b, bits);
	VP_ASSERT (ua <= (1u << bits) - 1, "narrowed value within range");
	if (a <= 0.0f) VP_ASSERT (ua == 0, "values <= 0 narrow to 0");
	if (a >= 1.0f) VP_ASSERT (ua == (1u << bits) - 1, "values >= 1 narrow to the maximum");
	if (a <= b) VP_ASSERT (ua <= ub, "narrowing is monotone");
	VP_ASSERT (pixman_float_to_unorm (pixman_unorm_to_float (ua, bits), bits) == ua, "unorm -> float -> unorm round trip");
    }
    VP_END ();
}
#ifdef VP_REPLAY
int main (void) { harness (); return 0; }
#endif
