/* C10: wide (float) readers of a narrow format, through the real accessors[]
 * table: the single-pixel float reader and the scanline float reader agree
 * bit for bit for every pixel value and position, and both equal
 * channel_value / (2^n - 1) computed from the NATIVE n-bit channel (not from
 * an 8-bit intermediate), absent alpha = 1.0, absent colour = 0.0.          */
#include "vp.h"
#include <config.h>
#include "pixman-access.c"
#include "arith.h"
#define BPP ((int) PIXMAN_FORMAT_BPP (FMT))
#define NWORDS 2
#define WIDTH ((NWORDS * 32 / BPP) < 4 ? (NWORDS * 32 / BPP) : 4)
void harness (void)
{
    static bits_image_t img;
    uint32_t mem[NWORDS]; argb_t line[WIDTH], px, ref; int x, i;
    for (i = 0; i < NWORDS; i++) VP_SYM_IDX (mem, i);
    VP_SYM (x); VP_ASSUME (x >= 0 && x < WIDTH);
    img.format = FMT; img.width = WIDTH; img.height = 1; img.bits = mem; img.rowstride = NWORDS; img.indexed = 0;
    _pixman_bits_image_setup_accessors (&img);
    VP_ASSERT (img.fetch_pixel_float && img.fetch_scanline_float, "wide readers present");
    img.fetch_scanline_float (&img, 0, 0, WIDTH, (uint32_t *) line, NULL);
    px = img.fetch_pixel_float (&img, x, 0);
    VP_ASSERT (px.a == line[x].a && px.r == line[x].r && px.g == line[x].g && px.b == line[x].b, "single-pixel and scanline float readers agree bit for bit");
    {	/* native-width reference: the n most significant bits of the 8-bit widened channel ARE the native channel */
	uint32_t p8 = img.fetch_pixel_32 (&img, x, 0);
	int na = PIXMAN_FORMAT_A (FMT), nr = PIXMAN_FORMAT_R (FMT), ng = PIXMAN_FORMAT_G (FMT), nb = PIXMAN_FORMAT_B (FMT);
	ref.a = na ? (float) (o_ch (p8, 3) >> (8 - na)) / (float) ((1u << na) - 1) : 1.0f;
	ref.r = nr ? (float) (o_ch (p8, 2) >> (8 - nr)) / (float) ((1u << nr) - 1) : 0.0f;
	ref.g = ng ? (float) (o_ch (p8, 1) >> (8 - ng)) / (float) ((1u << ng) - 1) : 0.0f;
	ref.b = nb ? (float) (o_ch (p8, 0) >> (8 - nb)) / (float) ((1u << nb) - 1) : 0.0f;
#define NEAR(u, v) ((u) - (v) < 1e-6f && (v) - (u) < 1e-6f)
	VP_ASSERT (NEAR (px.a, ref.a) && NEAR (px.r, ref.r) && NEAR (px.g, ref.g) && NEAR (px.b, ref.b), "float reader widens from the native channel width: value / (2^n - 1)");
    }
    VP_END ();
}
#ifdef VP_REPLAY
int main (void) { harness (); return 0; }
#endif
