/* C10: per-format codec of the real pixman-access.c, selected through the real
 * accessors[] table (_pixman_bits_image_setup_accessors), on symbolic memory.
 * -DFMT=PIXMAN_<name>.  With -DACCESSORS the image carries read/write
 * callbacks (plain memory access), which routes every call through the
 * PIXMAN_FB_ACCESSORS recompilation in pixman-access-accessors.c (linked unit).
 * Memory convention asserted by the oracle (little-endian host, as this build):
 * pixel x of an n-bpp row occupies bits [x*n, x*n+n) of the row counted from
 * the least significant bit of byte 0.                                         */
#include "vp.h"
#include <config.h>
#include "pixman-access.c"
#include "arith.h"

#define BPP ((int) PIXMAN_FORMAT_BPP (FMT))
#define TYPE ((int) PIXMAN_FORMAT_TYPE (FMT))
#define NWORDS 3
#define WIDTH ((NWORDS * 32 / BPP) < 6 ? (NWORDS * 32 / BPP) : 6)

static int vp_nread, vp_nwrite;
static uint32_t vp_read (const void *src, int size)
{ vp_nread++; return size == 1 ? *(const uint8_t *) src : size == 2 ? *(const uint16_t *) src : *(const uint32_t *) src; }
static void vp_write (void *dst, uint32_t v, int size)
{ vp_nwrite++; if (size == 1) *(uint8_t *) dst = v; else if (size == 2) *(uint16_t *) dst = v; else *(uint32_t *) dst = v; }

/* raw bits of pixel x, independent of pixman's FETCH_ macros */
static uint32_t o_raw (const uint32_t *w, int x)
{
    uint64_t lo = w[0] | ((uint64_t) w[1] << 32), hi = w[2];
    int bit = x * BPP;
    uint64_t v = bit < 64 ? (lo >> bit) | (bit ? (bit + BPP > 64 ? hi << (64 - bit) : 0) : 0) : hi >> (bit - 64);
    return BPP == 32 ? (uint32_t) v : (uint32_t) (v & ((1u << BPP) - 1));
}
/* canonical a8r8g8b8 value of a raw pixel for the A / ARGB / ABGR / BGRA / RGBA families */
static uint32_t o_decode (uint32_t raw)
{
    int na = PIXMAN_FORMAT_A (FMT), nr = PIXMAN_FORMAT_R (FMT), ng = PIXMAN_FORMAT_G (FMT), nb = PIXMAN_FORMAT_B (FMT);
    int sa, sr, sg, sb;
    switch (TYPE)
    {
    case PIXMAN_TYPE_A:    sa = 0; sr = sg = sb = 0; break;
    case PIXMAN_TYPE_ARGB: sb = 0; sg = nb; sr = nb + ng; sa = nb + ng + nr; break;
    case PIXMAN_TYPE_ABGR: sr = 0; sg = nr; sb = nr + ng; sa = nr + ng + nb; break;
    case PIXMAN_TYPE_BGRA: sb = BPP - nb; sg = sb - ng; sr = sg - nr; sa = sr - na; break;	/* B in the most significant bits */
    default /* RGBA */:    sr = BPP - nr; sg = sr - ng; sb = sg - nb; sa = sb - na; break;
    }
    uint8_t a = na ? o_widen8 (raw >> sa, na) : 255;
    uint8_t r = nr ? o_widen8 (raw >> sr, nr) : 0, g = ng ? o_widen8 (raw >> sg, ng) : 0, b = nb ? o_widen8 (raw >> sb, nb) : 0;
    return o_pack (a, r, g, b);
}
void harness (void)
{
    static bits_image_t img;
    uint32_t mem[NWORDS], mem0[NWORDS], line[WIDTH + 1];
    int x, i;
    for (i = 0; i < NWORDS; i++) { VP_SYM_IDX (mem0, i); mem[i] = mem0[i]; }
    VP_SYM (x); VP_ASSUME (x >= 0 && x < WIDTH);
    img.format = FMT; img.width = WIDTH; img.height = 1; img.bits = mem; img.rowstride = NWORDS; img.indexed = 0;
#ifdef ACCESSORS
    /* ACCESSORS: 3 both callbacks, 1 reader only, 2 writer only - an image with either callback must go through them */
    img.read_func = (ACCESSORS & 1) ? vp_read : 0; img.write_func = (ACCESSORS & 2) ? vp_write : 0;
#endif
    _pixman_bits_image_setup_accessors (&img);
    VP_ASSERT (img.fetch_pixel_32 && img.fetch_scanline_32 && img.store_scanline_32, "format present in the accessor table");

    uint32_t p = img.fetch_pixel_32 (&img, x, 0);
#ifdef ACCESSORS
    if (ACCESSORS & 1) VP_ASSERT (vp_nread > 0, "an image with a read callback is read through it");
#endif
    VP_ASSERT (p == o_decode (o_raw (mem0, x)), "single-pixel reader widens by bit replication (absent alpha -> 1, absent colour -> 0)");
    line[WIDTH] = 0xdeadbeef;
    img.fetch_scanline_32 (&img, 0, 0, WIDTH, line, 0);
    VP_ASSERT (line[x] == p && line[WIDTH] == 0xdeadbeef, "scanline and single-pixel readers agree");
    for (i = 0; i < NWORDS; i++) VP_ASSERT (mem[i] == mem0[i], "reading does not modify memory");

#if defined(ACCESSORS) && ACCESSORS == 1
    /* reader-only image (a read-only source): stores are not defined for it */
    VP_END ();
    return;
#endif
    /* store an arbitrary canonical value v at x */
    uint32_t v; VP_SYM (v);
    img.store_scanline_32 (&img, x, 0, 1, &v);
#ifdef ACCESSORS
    if (ACCESSORS & 2) VP_ASSERT (vp_nwrite > 0, "an image with a write callback is written through it");
#endif
    for (i = 0; i < WIDTH; i++)
	if (i != x) VP_ASSERT (o_raw (mem, i) == o_raw (mem0, i), "store leaves every other pixel's bits unchanged");
    for (i = 0; i < NWORDS; i++)
    {
	int first = WIDTH * BPP - 32 * i;	/* first padding bit within word i */
	uint32_t padmask = first <= 0 ? 0xffffffffu : first >= 32 ? 0 : ~((1u << first) - 1);
	VP_ASSERT (((mem[i] ^ mem0[i]) & padmask) == 0, "store leaves row padding unchanged");
    }
    {
	/* narrowing keeps the most significant bits: re-reading gives widen (top bits of v) */
	int na = PIXMAN_FORMAT_A (FMT), nr = PIXMAN_FORMAT_R (FMT), ng = PIXMAN_FORMAT_G (FMT), nb = PIXMAN_FORMAT_B (FMT);
	uint32_t want = o_pack (na ? o_widen8 (o_narrow8 (v >> 24, na), na) : 255, nr ? o_widen8 (o_narrow8 (v >> 16, nr), nr) : 0,
				ng ? o_widen8 (o_narrow8 (v >> 8, ng), ng) : 0, nb ? o_widen8 (o_narrow8 (v, nb), nb) : 0);
	VP_ASSERT (img.fetch_pixel_32 (&img, x, 0) == want, "narrowing keeps the most significant bits of each channel");
    }
    /* write-back of what was read is the identity on the defined bits */
    for (i = 0; i < NWORDS; i++) mem[i] = mem0[i];
    img.store_scanline_32 (&img, x, 0, 1, &p);
    VP_ASSERT (img.fetch_pixel_32 (&img, x, 0) == p, "store (fetch (pixel)) reads back the same value");
    for (i = 0; i < WIDTH; i++)
	if (i != x) VP_ASSERT (o_raw (mem, i) == o_raw (mem0, i), "write-back leaves the neighbours unchanged");
    VP_END ();
}
#ifdef VP_REPLAY
int main (void) { harness (); return 0; }
#endif
