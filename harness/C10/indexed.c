/* C10: palette (indexed) formats c8 / g8 / c4 / g4 / g1 of the real
 * pixman-access.c through the real accessors[] table: a read yields the
 * palette's rgba[] entry of the raw pixel, scanline and single-pixel readers
 * agree, a store writes the palette's ent[] entry of the colour (15-bit RGB
 * index for colour palettes, 15-bit luminance for gray ones) into the addressed
 * pixel's bits only - whatever the palette contains (entries wider than the
 * pixel are truncated, never spilled into neighbours).  Memory, position,
 * the two palette entries involved are symbolic; the stored colour is concrete per instance.                 */
#include "vp.h"
#include <config.h>
#include "pixman-access.c"
#define BPP ((int) PIXMAN_FORMAT_BPP (FMT))
#define NWORDS 2
#define WIDTH ((NWORDS * 32 / BPP) < 6 ? (NWORDS * 32 / BPP) : 6)
static pixman_indexed_t pal;		/* zero except the entries set below */
static uint32_t o_raw (const uint32_t *w, int x)
{
    uint64_t v = (w[0] | ((uint64_t) w[1] << 32)) >> (x * BPP);
    return (uint32_t) (v & ((1u << BPP) - 1));
}
void harness (void)
{
    static bits_image_t img;
    uint32_t mem[NWORDS], mem0[NWORDS], line[WIDTH + 1], csym, v; uint8_t esym; int x, i;
    for (i = 0; i < NWORDS; i++) { VP_SYM_IDX (mem0, i); mem[i] = mem0[i]; }
    VP_SYM (x); VP_ASSUME (x >= 0 && x < WIDTH);
    VP_SYM (csym); VP_SYM (esym);
    v = VVAL;	/* stored colour concrete per instance: a symbolic index into the 32768-entry ent[] table does not finish in 600 s */
    img.format = FMT; img.width = WIDTH; img.height = 1; img.bits = mem; img.rowstride = NWORDS; img.indexed = &pal;
    _pixman_bits_image_setup_accessors (&img);
    uint32_t raw = o_raw (mem0, x);
    pal.rgba[raw] = csym;
    VP_ASSERT (img.fetch_pixel_32 (&img, x, 0) == csym, "read yields the palette colour of the raw pixel");
    line[WIDTH] = 0xdeadbeef;
    img.fetch_scanline_32 (&img, 0, 0, WIDTH, line, 0);
    VP_ASSERT (line[x] == csym && line[WIDTH] == 0xdeadbeef, "scanline and single-pixel readers agree");
    {
	unsigned r = (v >> 16) & 0xff, g = (v >> 8) & 0xff, b = v & 0xff;
	unsigned idx = PIXMAN_FORMAT_TYPE (FMT) == PIXMAN_TYPE_GRAY ? ((r * 153 + g * 301 + b * 58) >> 2) & 0x7fff
								     : ((r >> 3) << 10) | ((g >> 3) << 5) | (b >> 3);
	pal.ent[idx] = esym;
	img.store_scanline_32 (&img, x, 0, 1, &v);
	for (i = 0; i < WIDTH; i++)
	    if (i != x) VP_ASSERT (o_raw (mem, i) == o_raw (mem0, i), "store leaves every other pixel's bits unchanged, whatever the palette entry");
	for (i = 0; i < NWORDS; i++)
	{
	    int first = WIDTH * BPP - 32 * i; uint32_t padmask = first <= 0 ? 0xffffffffu : first >= 32 ? 0 : ~((1u << first) - 1);
	    VP_ASSERT (((mem[i] ^ mem0[i]) & padmask) == 0, "store leaves row padding unchanged");
	}
	VP_ASSERT (o_raw (mem, x) == (esym & ((1u << BPP) - 1)), "store writes the palette entry of the colour's 15-bit index, truncated to the pixel");
    }
    VP_END ();
}
#ifdef VP_REPLAY
int main (void) { harness (); return 0; }
#endif
