from vp.core import Inst

LEVEL = "model_checking"
RGB = ["a8r8g8b8", "x8r8g8b8", "a8b8g8r8", "x8b8g8r8", "b8g8r8a8", "b8g8r8x8", "r8g8b8a8", "r8g8b8x8", "x14r6g6b6",
       "r8g8b8", "b8g8r8", "r5g6b5", "b5g6r5", "a1r5g5b5", "x1r5g5b5", "a1b5g5r5", "x1b5g5r5", "a4r4g4b4", "x4r4g4b4",
       "a4b4g4r4", "x4b4g4r4", "a8", "r3g3b2", "b2g3r3", "a2r2g2b2", "a2b2g2r2", "x4a4", "a4", "r1g2b1", "b1g2r1",
       "a1r1g1b1", "a1b1g1r1", "a1"]
QUICK_ACC = ["r5g6b5", "r8g8b8", "a4", "a1", "a1r1g1b1", "b8g8r8a8", "x14r6g6b6", "a2b2g2r2"]
QUICK_FLT = [("a8r8g8b8", 8), ("r5g6b5", 10), ("a1r5g5b5", 5), ("x4a4", 4), ("r3g3b2", 2), ("a4r4g4b4", 6), ("a1", 1)]


def instances(tier):
    L = []
    ck = ["--bounds-check", "--pointer-check"]
    for f in RGB:
        L.append(Inst("codec-" + f, "C10/fmt.c", {"FMT": "PIXMAN_" + f}, link=[], unwind=64, checks=ck,
                      desc={"what": "fetch_pixel/fetch_scanline/store_scanline of this format on symbolic memory: bit-replicated widening, MSB narrowing, neighbour and padding bits untouched, read-back identity"}))
    for f in (RGB if tier == "thorough" else QUICK_ACC):
        for acc, an in ((3, "rw"), (1, "r")):
          if acc != 3 and tier == "quick" and f not in ("r5g6b5", "a4"):
              continue
          L.append(Inst("codec-accessors-%s-%s" % (an, f), "C10/fmt.c", {"FMT": "PIXMAN_" + f, "ACCESSORS": acc}, link=["pixman-access-accessors.c"], unwind=64, checks=ck,
                        desc={"what": "same obligations with read and/or write callbacks (PIXMAN_FB_ACCESSORS recompilation): goes through the callbacks and behaves like direct addressing"}))
    for f in ("c8", "g8", "c4", "g4", "g1"):
      for vv in (("0xffffffffu",) if tier == "quick" else ("0xffffffffu", "0x80ff8040u", "0x00000000u")):
        L.append(Inst("indexed-%s-v%s" % (f, vv[2:10]), "C10/indexed.c", {"FMT": "PIXMAN_" + f, "VVAL": vv}, link=[], unwind=64, checks=ck, timeout=600,
                      desc={"what": "palette format: read == rgba[raw]; store writes ent[15-bit index of the colour] into the addressed pixel's bits only; palette entries symbolic"}))
    for f, nb in (QUICK_FLT if tier == "quick" else [(f, 8) for f in RGB] + QUICK_FLT):
        L.append(Inst("float-%s-n%d" % (f, nb), "C10/flt.c", {"FMT": "PIXMAN_" + f, "NBITS": nb}, link=[], unwind=6, timeout=600,
                      desc={"what": "pixman_expand_to_float: 0 -> 0.0, max -> 1.0, strictly monotone, absent alpha 1.0 / colour 0.0; contract(expand) identity; float_to_unorm clamps and is monotone"}))
    for f in (("r5g6b5", "a1r5g5b5", "r3g3b2", "a4r4g4b4", "a8") if tier == "quick" else [f for f in RGB if f != "x14r6g6b6"]):
        L.append(Inst("float-readers-" + f, "C10/fltread.c", {"FMT": "PIXMAN_" + f}, link=["pixman-utils.c"], unwind=64, checks=ck, timeout=600,
                      desc={"what": "fetch_pixel_float == fetch_scanline_float bit for bit, both == native channel / (2^n - 1), every pixel value and position"}))
    return L


TEXT = ("Bounded model checking of the real per-format readers and writers (pixman-access.c, reached through the real accessors[] table) on "
        "fully symbolic memory for the 33 A/ARGB/ABGR/BGRA/RGBA-type formats: the value read equals an independent decoder (bit position by "
        "format definition, bit-replicated widening, absent alpha = 1, absent colour = 0) for every pixel value and every x offset (all "
        "sub-byte phases, 24-bpp phases); scanline and single-pixel readers agree; a store changes only the addressed pixel's bits (every "
        "other pixel and the row padding unchanged) and keeps the most significant bits; write-back of a read value is the identity; the "
        "accessor recompilation behaves identically; the float readers of narrow formats (fetch_pixel_float / fetch_scanline_float) agree bit for bit and widen from the native channel width; float widening/narrowing maps 0->0.0, max->1.0, is strictly monotone and round-trips.")
NOTE = ("Trusted: the oracle decoder in harness/C10/fmt.c and oracle/arith.h (o_widen8/o_narrow8); little-endian bit order convention. "
        "Palette formats c8/g8/c4/g4/g1 have their own instances (two palette entries symbolic); YUV, sRGB and the wide (10-bit, float) storage formats are outside this check's oracle.")
RULE = "C10 instance = format x (direct | accessors | float path)."
BOUNDS = {"row": "3 words, up to 6 pixels, x symbolic", "values": "all raw memory contents and all 32-bit store values symbolic"}
OUTSIDE = ["x4c4 / x4g4 (palette formats stored in bytes)", "yuy2 / yv12 / a8r8g8b8_sRGB colour conversion", "a2r10g10b10-family and rgb(a)_float storage formats", "16-bit float_to_unorm depth (unused by any format here)"]
ASSUMPTIONS = ["little-endian host bit order (this build)"]
