from vp.core import Inst

LEVEL = "model_checking"
SPARSE_MATS = (0, 1, 4)       # identity, sparse scale/translate, powers of two and extremes
DENSE_MATS = (2, 3, 5, 6)
VECS = (0, 1, 2, 3, 4, 5, 6)


def instances(tier):
    L = []
    kw = dict(link=[], unwind=5)
    L.append(Inst("noabort-point-point3d-fullwidth", "C11/matrix.c", {"MODE": 0}, **kw,
                  desc={"what": "pixman's own assert()s unreachable for every matrix and vector (all 12x32 bits symbolic)"}))
    for m in SPARSE_MATS + (DENSE_MATS if tier == "thorough" else ()):
        to = 1500 if m in DENSE_MATS else None
        L.append(Inst("affine-mat%d-allvectors" % m, "C11/matrix.c", {"MODE": 1, "MAT_SEL": m}, timeout=to, **kw,
                      desc={"what": "transform_point, concrete affine matrix, every 32-bit vector: exact nearest rounding / FALSE iff unrepresentable"}))
        if (m == 4 and tier == "quick") or m in (2, 5, 6):
            continue        # point3d with dense matrices 2, 5, 6: no verdict in 1500 s
        L.append(Inst("point3d-mat%d-allvectors" % m, "C11/matrix.c", {"MODE": 2, "MAT_SEL": m}, timeout=to or (1500 if m == 4 else None), **kw,
                      desc={"what": "transform_point_3d, concrete matrix, every 32-bit vector"}))
    for v in ((0, 1, 4) if tier == "quick" else (0, 1, 3, 4, 6)):   # vec 2 and 5: no verdict in 1500 s
        L.append(Inst("affine-vec%d-allmatrices" % v, "C11/matrix.c", {"MODE": 1, "VEC_SEL": v}, timeout=1500 if tier == "thorough" else None, **kw,
                      desc={"what": "transform_point, concrete vector, every affine matrix (6x32 bits symbolic)"}))
    for m in ((0, 1) if tier == "quick" else (0, 1, 4)):
        L.append(Inst("multiply-left%d" % m, "C11/matrix.c", {"MODE": 3, "MAT_SEL": m}, timeout=1500 if tier == "thorough" else None, **kw,
                      desc={"what": "transform_multiply, concrete left operand, right operand symbolic: within rounding of exact; FALSE iff overflow"}))
        L.append(Inst("multiply-right%d" % m, "C11/matrix.c", {"MODE": 3, "MAT_SEL_R": m}, timeout=1500 if tier == "thorough" else None, **kw,
                      desc={"what": "transform_multiply, concrete right operand, left operand symbolic"}))
    for d in ((0, 1, 2, 3, 4, 5, 7, 8, 11, 13, 15) if tier == "quick" else (0, 1, 2, 3, 4, 5, 6, 7, 8, 11, 12, 13, 15)):   # divisors 9, 10 (+-(2^48-1)) and 14 (-(2^32)+1): no verdict in 1500 s
        L.append(Inst("sdiv128-div%d" % d, "C11/matrix.c", {"MODE": 4, "DIVSEL": d}, timeout=1500 if tier == "thorough" else 400, **kw,
                      desc={"what": "rounded_sdiv_128_by_49 with a concrete divisor (incl. +-2^48), 126-bit symbolic dividend: nearest quotient"}))
    for m, w in (((0, 0), (1, 1), (0, 3), (1, 2), (0, 4)) if tier == "quick" else [(m, w) for m in (0, 1) for w in range(8)]):
        L.append(Inst("homogeneous-mat%d-w%d" % (m, w), "C11/matrix.c", {"MODE": 8, "MAT_SEL": m, "WSEL": w}, timeout=1500 if tier == "thorough" else 600, **kw,
                      desc={"what": "transform_point, bottom row (0 0 1), vector w from a menu (2, 0.5, -1, 0, 1/65536, 3, ...), x/y symbolic: result == (M v)/w nearest, FALSE iff w == 0 or unrepresentable"}))
    L.append(Inst("constructors-translate-scale", "C11/matrix.c", {"MODE": 5}, **kw,
                  desc={"what": "init_translate/scale/rotate/identity shapes; translate forward/reverse; zero scale refused"}))
    L.append(Inst("fixed-double-conversions", "C11/matrix.c", {"MODE": 7}, timeout=900, **kw,
                  desc={"what": "fixed -> double -> fixed identity; range refusal (IEEE doubles, bit-precise)"}))
    if tier == "thorough":
        L.append(Inst("bounds-contains-corners", "C11/matrix.c", {"MODE": 6}, timeout=1500, **kw,
                      desc={"what": "transform_bounds result contains all four corners for 2^k scale + translation"}))
    return L


TEXT = ("Bounded model checking of the real pixman-matrix.c against a 128-bit integer oracle: pixman's internal assertions are "
        "unreachable for every matrix/vector (never aborts); transform_point (affine), point_3d and multiply return the exact "
        "product rounded to nearest or FALSE exactly when unrepresentable, for every value of one operand with the other operand "
        "taken from a stated menu of concrete matrices/vectors; the 128/49-bit divider rounds to nearest for menu divisors; transform_point with a vector whose w is not 1 (menu of w values, x/y symbolic, "
        "bottom row 0 0 1) returns (M v)/w rounded to nearest, FALSE iff w == 0 or unrepresentable.")
NOTE = ("SAT cannot decide 32x32-bit multiplier equivalence with both operands symbolic (probes: >400 s on every back end, also "
        "with 4-bit mantissas), so one operand of each product is concrete per instance (menus in harness/C11/matrix.c). The oracle "
        "writes m*v as m*(65536*floor(v/65536)) + m*(v mod 65536) (distributive law; trusted identity). invert accuracy and "
        "projective quotient exactness with symbolic divisor are outside the claim.")
RULE = "C11 instance = entry point x concrete operand menu entry."
BOUNDS = {"noabort": "all operands full width", "exactness": "one operand per product concrete (menu), the other 32-bit symbolic",
          "divider": "divisor from menu of 16, dividend 126 bits symbolic"}
OUTSIDE = ["both operands symbolic in the exactness checks", "pixman_transform_invert accuracy (floating-point error analysis)",
           "projective division with symbolic divisor", "rotate by arbitrary angle (depends on caller-supplied sin/cos only)"]
ASSUMPTIONS = ["m*v == m*(65536*floor(v/65536)) + m*(v mod 65536) (used to phrase the oracle product)"]
