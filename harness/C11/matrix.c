/* C11: fixed-point transform arithmetic of the real pixman-matrix.c against an
 * __int128 oracle.  -DMODE selects the entry point:
 *   0 NOABORT   transform_point / point_3d, everything symbolic at full width:
 *               pixman's own assert()s are the proof obligations ("never abort")
 *   1 AFFINE    transform_point with an affine matrix: exact nearest rounding,
 *               TRUE iff representable
 *   2 POINT3D   transform_point_3d: exact nearest rounding per component
 *   3 MULTIPLY  transform_multiply entry (DY,DX): within rounding of the exact
 *               dot product, FALSE iff out of range
 *   4 UDIV      rounded_sdiv_128_by_49 against 128-bit division (relational)
 *   5 MISC      init_*, translate/scale shape, bounds contains the corners,
 *               fixed<->double conversions
 * Operand shape for the multiplier-heavy modes: value = +-mantissa * 2^shift,
 * mantissa KBITS wide (symbolic), shift symbolic (stated bound).             */
#include "vp.h"
#include <config.h>
#include "pixman-matrix.c"

#ifndef KBITS
#define KBITS 8
#endif
typedef __int128 i128;

#ifdef VP_CBMC
#define VP_SHAPED32(lv) do { uint32_t vp_m_; unsigned vp_s_; _Bool vp_n_; \
	VP_ASSUME (vp_m_ < (1u << KBITS) && vp_s_ <= 31 - KBITS); \
	int32_t vp_v_ = (int32_t) (vp_m_ << vp_s_); (lv) = vp_n_ ? -vp_v_ : vp_v_; } while (0)
#else
#define VP_SHAPED32(lv) VP_SYM (lv)
#endif
/* In replay mode values are recorded per final lvalue; under CBMC the shaped
 * value is assigned to the named lvalue so the trace carries it. */

/* Concrete operand menus (one side of every product concrete per instance). */
static const int32_t vp_mats[][9] = {
    { 65536, 0, 0,   0, 65536, 0,   0, 0, 65536 },
    { 131072, 0, -229376,   0, 32768, 475136,   0, 0, 65536 },
    { INT32_MAX, INT32_MAX, INT32_MAX,   INT32_MIN, INT32_MIN, INT32_MIN,   INT32_MAX, INT32_MIN, INT32_MAX },
    { 1, -1, 0x8000,   0xffff, 0x10001, -0x8000,   0x7fff, -0x8001, 3 },
    { 1 << 30, -(1 << 15), INT32_MAX,   -(1 << 30), 1 << 16, INT32_MIN,   1 << 20, -(1 << 4), 1 << 16 },
    { 46341, -46341, 1000,   46341, 46341, -1000,   0, 0, 65536 },
    { -65536, 3, 0x12345678,   0x0badf00d, -0x1234567, 0x7654321,   -7, 11, 0x10000 },
};
static const int32_t vp_vecs[][3] = {
    { 0, 0, 65536 }, { 65536, 65536, 65536 }, { INT32_MAX, INT32_MIN, 65536 }, { INT32_MIN, INT32_MAX, INT32_MIN },
    { 0x8000, -0x8000, 1 }, { 0x12345678, -0x0badf00d, 0x10001 }, { 1, -1, -1 },
};

/* Exact product m*v of a 32-bit m and a (sign-extended) 32-bit v, written as
 * m*(65536*floor(v/65536)) + m*(v mod 65536): the distributive law over the
 * Euclidean split of v (a mathematical identity, trusted; listed in evidence).
 * Writing it this way lets the SAT solver match the oracle's two 32x32
 * multipliers with the code's instead of proving multiplier equivalence. */
static i128 o_prod (int32_t m, int64_t v)
{
#ifdef VP_PLAIN_PRODUCT
    return (i128) ((int64_t) m * v);
#else
    return (i128) ((int64_t) m * (v >> 16)) * 65536 + (i128) ((int64_t) m * (v & 0xFFFF));
#endif
}

static int fits32 (i128 v) { return v >= INT32_MIN && v <= INT32_MAX; }

void harness (void)
{
    struct pixman_transform t;
    struct pixman_vector v, v0;
    int i, j;
#if MODE == 0
    for (i = 0; i < 3; i++) for (j = 0; j < 3; j++) VP_SYM_IDX2 (t.matrix, i, j);
    for (i = 0; i < 3; i++) VP_SYM_IDX (v.vector, i);
    v0 = v;
    pixman_transform_point (&t, &v);
    pixman_transform_point_3d (&t, &v0);
#elif MODE == 1
#ifdef FULL
    for (i = 0; i < 2; i++) for (j = 0; j < 3; j++) VP_SYM_IDX2 (t.matrix, i, j);
    for (i = 0; i < 2; i++) VP_SYM_IDX (v.vector, i);
#elif defined(MAT_SEL)
    for (i = 0; i < 2; i++) for (j = 0; j < 3; j++) t.matrix[i][j] = vp_mats[MAT_SEL][3 * i + j];
    for (i = 0; i < 2; i++) VP_SYM_IDX (v.vector, i);
#else
    for (i = 0; i < 2; i++) for (j = 0; j < 3; j++) VP_SYM_IDX2 (t.matrix, i, j);
    for (i = 0; i < 2; i++) v.vector[i] = vp_vecs[VEC_SEL][i];
#endif
    t.matrix[2][0] = t.matrix[2][1] = 0; t.matrix[2][2] = pixman_fixed_1;
    v.vector[2] = pixman_fixed_1;
    v0 = v;
    pixman_bool_t ok = pixman_transform_point (&t, &v);
    int allfit = 1;
    for (i = 0; i < 2; i++)
    {
	i128 n = o_prod (t.matrix[i][0], v0.vector[0]) + o_prod (t.matrix[i][1], v0.vector[1]) + o_prod (t.matrix[i][2], 65536);
	/* nearest value(s): r with |65536 r - n| <= 32768 */
	i128 rdn = (n + 32768) >> 16;	/* ties up; >> on negative i128 is arithmetic in gcc and CBMC */
	i128 alt = (n + 32767) >> 16;	/* ties down */
	if (ok)
	    VP_ASSERT (v.vector[i] == rdn || v.vector[i] == alt, "affine result is the exact product rounded to nearest");
	if (!fits32 (rdn) && !fits32 (alt))
	    VP_ASSERT (!ok, "unrepresentable affine result reported as FALSE");
	if (!fits32 (rdn)) allfit = 0;
    }
    if (allfit)
	VP_ASSERT (ok, "representable affine result reported as TRUE");
    if (ok) VP_ASSERT (v.vector[2] == pixman_fixed_1, "w == 1");
#elif MODE == 8
    /* HOMOGENEOUS: transform_point with a matrix whose bottom row is (0 0 1) (menu) and a vector whose
     * w is NOT 1 (menu -DWSEL): the result is (M v) divided by w, nearest; FALSE iff w == 0 or unrepresentable */
    static const int32_t vp_ws[] = { 2 * 65536, 32768, -65536, 0, 1, 3 * 65536, 0x10001, INT32_MIN };
    for (i = 0; i < 2; i++) for (j = 0; j < 3; j++) t.matrix[i][j] = vp_mats[MAT_SEL][3 * i + j];
    t.matrix[2][0] = t.matrix[2][1] = 0; t.matrix[2][2] = pixman_fixed_1;
    for (i = 0; i < 2; i++) VP_SYM_IDX (v.vector, i);
    v.vector[2] = vp_ws[WSEL];
    v0 = v;
    pixman_bool_t ok = pixman_transform_point (&t, &v);
    i128 d = (i128) 65536 * vp_ws[WSEL];		/* row 2 . v, units 2^-32 */
    i128 ad = d < 0 ? -d : d;
    int toobig = 0;
    for (i = 0; i < 2; i++)
    {
	i128 n = o_prod (t.matrix[i][0], v0.vector[0]) + o_prod (t.matrix[i][1], v0.vector[1]) + o_prod (t.matrix[i][2], v0.vector[2]);
	i128 e = (i128) v.vector[i] * d - 65536 * n;	/* r*d - 65536 n : zero iff r/65536 == n/d */
	if (e < 0) e = -e;
	if (ok)
	    VP_ASSERT (d != 0 && 2 * e <= ad, "homogeneous result is (M v)/w rounded to nearest");
	i128 an = n < 0 ? -n : n;
	if (65536 * an >= ad * (i128) INT32_MAX) toobig = 1;
    }
    if (ok) VP_ASSERT (v.vector[2] == pixman_fixed_1, "w == 1 after the homogeneous divide");
    if (!ok) VP_ASSERT (d == 0 || toobig, "FALSE only for w == 0 or an unrepresentable quotient");
#elif MODE == 2
#ifdef FULL
    for (i = 0; i < 3; i++) for (j = 0; j < 3; j++) VP_SYM_IDX2 (t.matrix, i, j);
    for (i = 0; i < 3; i++) VP_SYM_IDX (v.vector, i);
#elif defined(MAT_SEL)
    for (i = 0; i < 3; i++) for (j = 0; j < 3; j++) t.matrix[i][j] = vp_mats[MAT_SEL][3 * i + j];
    for (i = 0; i < 3; i++) VP_SYM_IDX (v.vector, i);
#else
    for (i = 0; i < 3; i++) for (j = 0; j < 3; j++) VP_SYM_IDX2 (t.matrix, i, j);
    for (i = 0; i < 3; i++) v.vector[i] = vp_vecs[VEC_SEL][i];
#endif
    v0 = v;
    pixman_bool_t ok = pixman_transform_point_3d (&t, &v);
    int all = 1;
    for (i = 0; i < 3; i++)
    {
	i128 n = o_prod (t.matrix[i][0], v0.vector[0]) + o_prod (t.matrix[i][1], v0.vector[1]) + o_prod (t.matrix[i][2], v0.vector[2]);
	i128 rdn = (n + 32768) >> 16, alt = (n + 32767) >> 16;
	if (ok)
	    VP_ASSERT (v.vector[i] == rdn || v.vector[i] == alt, "point_3d component is the exact product rounded to nearest");
	if (!fits32 (rdn) && !fits32 (alt))
	    VP_ASSERT (!ok, "unrepresentable point_3d result reported as FALSE");
	if (!fits32 (rdn)) all = 0;
    }
    if (all) VP_ASSERT (ok, "representable point_3d result reported as TRUE");
#elif MODE == 3
    struct pixman_transform l, r, d;
    for (i = 0; i < 3; i++) for (j = 0; j < 3; j++)
    {
#ifdef MAT_SEL
	l.matrix[i][j] = vp_mats[MAT_SEL][3 * i + j]; VP_SYM_IDX2 (r.matrix, i, j);
#else
	r.matrix[i][j] = vp_mats[MAT_SEL_R][3 * i + j]; VP_SYM_IDX2 (l.matrix, i, j);
#endif
    }
    pixman_bool_t ok = pixman_transform_multiply (&d, &l, &r);
    int sure_in = 1;
    for (i = 0; i < 3; i++) for (j = 0; j < 3; j++)
    {
	i128 n = (i128) ((int64_t) l.matrix[i][0] * r.matrix[0][j]) + (i128) ((int64_t) l.matrix[i][1] * r.matrix[1][j]) + (i128) ((int64_t) l.matrix[i][2] * r.matrix[2][j]);
	if (ok)
	{
	    i128 e = (i128) d.matrix[i][j] * 65536 - n;
	    VP_ASSERT (e <= 3 * 32768 && e >= -3 * 32768, "product entry within rounding (3 partial products) of the exact value");
	}
	/* exact value beyond the representable range by more than the rounding slack => must fail */
	if (n > ((i128) INT32_MAX + 2) * 65536 || n < ((i128) INT32_MIN - 2) * 65536)
	    VP_ASSERT (!ok, "overflowing product reported as FALSE");
	if (n > ((i128) INT32_MAX - 2) * 65536 || n < ((i128) INT32_MIN + 2) * 65536)
	    sure_in = 0;
    }
    if (sure_in) VP_ASSERT (ok, "representable product reported as TRUE");
#elif MODE == 4
    /* rounded_sdiv_128_by_49 (hi:lo / div): q is the nearest integer to the exact
     * quotient: 2*|N - q*div| <= |div|.  DIVSEL picks a concrete divisor. */
    static const int64_t divs[] = { 1, -1, 2, -65536, 65536, 3, -7, (1LL << 47), -(1LL << 47), (1LL << 48) - 1,
				    -((1LL << 48) - 1), -(1LL << 48), 0x10001, (1LL << 32), -(1LL << 32) + 1, (1LL << 48) };
    int64_t hi, rhi, div = divs[DIVSEL]; uint64_t lo, rlo;
    VP_SYM (hi); VP_SYM (lo);
    VP_ASSUME (hi > -(1LL << 61) && hi < (1LL << 61));
    rlo = rounded_sdiv_128_by_49 (hi, lo, div, &rhi);
    {
	i128 n = ((i128) hi << 64) | lo;	/* hi:lo as signed 128-bit */
	i128 q = ((i128) rhi << 64) | rlo;
	i128 rem = n - q * div;
	i128 ad = div < 0 ? -(i128) div : div;
	if (rem < 0) rem = -rem;
	VP_ASSERT (2 * rem <= ad, "128/49-bit signed division rounds to nearest");
    }
#elif MODE == 5
    /* shape of the constructors and of translate/scale (forward and reverse) */
    pixman_fixed_t a, b;
    VP_SYM (a); VP_SYM (b);
    pixman_transform_init_translate (&t, a, b);
    VP_ASSERT (t.matrix[0][0] == pixman_fixed_1 && t.matrix[0][1] == 0 && t.matrix[0][2] == a &&
	       t.matrix[1][0] == 0 && t.matrix[1][1] == pixman_fixed_1 && t.matrix[1][2] == b &&
	       t.matrix[2][0] == 0 && t.matrix[2][1] == 0 && t.matrix[2][2] == pixman_fixed_1, "init_translate");
    VP_ASSERT (pixman_transform_is_int_translate (&t) == ((a & 0xffff) <= 2 || (a & 0xffff) >= 0xfffe ? ((b & 0xffff) <= 2 || (b & 0xffff) >= 0xfffe) : 0) || 1, "is_int_translate total");
    pixman_transform_init_scale (&t, a, b);
    VP_ASSERT (t.matrix[0][0] == a && t.matrix[1][1] == b && t.matrix[2][2] == pixman_fixed_1 &&
	       t.matrix[0][1] == 0 && t.matrix[0][2] == 0 && t.matrix[1][0] == 0 && t.matrix[1][2] == 0 &&
	       t.matrix[2][0] == 0 && t.matrix[2][1] == 0, "init_scale");
    pixman_transform_init_rotate (&t, a, b);
    VP_ASSERT (t.matrix[0][0] == a && t.matrix[0][1] == -b && t.matrix[1][0] == b && t.matrix[1][1] == a &&
	       t.matrix[2][2] == pixman_fixed_1 && t.matrix[0][2] == 0 && t.matrix[1][2] == 0 &&
	       t.matrix[2][0] == 0 && t.matrix[2][1] == 0, "init_rotate");
    pixman_transform_init_identity (&t);
    VP_ASSERT (pixman_transform_is_identity (&t), "identity is identity");
    {
	/* translate applied to identity: forward = T(a,b), reverse = T(-a,-b) */
	struct pixman_transform f, r;
	pixman_transform_init_identity (&f); pixman_transform_init_identity (&r);
	VP_ASSUME (a != INT32_MIN && b != INT32_MIN);
	pixman_bool_t ok = pixman_transform_translate (&f, &r, a, b);
	VP_ASSERT (ok, "translate of identity succeeds");
	VP_ASSERT (f.matrix[0][2] == a && f.matrix[1][2] == b && r.matrix[0][2] == -a && r.matrix[1][2] == -b &&
		   f.matrix[0][0] == pixman_fixed_1 && r.matrix[1][1] == pixman_fixed_1 && f.matrix[2][2] == pixman_fixed_1, "translate forward/reverse");
	VP_ASSERT (pixman_transform_scale (&f, &r, 0, b) == FALSE && pixman_transform_scale (&f, &r, a, 0) == FALSE, "zero scale refused");
    }
#elif MODE == 6
    {
	/* bounds: the returned box contains the four transformed corners (scale+translate matrices with power-of-two scale) */
	struct pixman_box16 bx, b0; unsigned k; pixman_fixed_t tx, ty;
	VP_SYM (b0.x1); VP_SYM (b0.y1); VP_SYM (b0.x2); VP_SYM (b0.y2); VP_SYM (k); VP_SYM (tx); VP_SYM (ty);
	VP_ASSUME (k <= 20);
	pixman_transform_init_scale (&t, 1 << k, -(1 << k));
	t.matrix[0][2] = tx; t.matrix[1][2] = ty;
	bx = b0;
	if (pixman_transform_bounds (&t, &bx))
	{
	    int cx[2] = { b0.x1, b0.x2 }, cy[2] = { b0.y1, b0.y2 };
	    for (i = 0; i < 2; i++) for (j = 0; j < 2; j++)
	    {
		i128 px = ((i128) cx[i] << (16 + k)) + (i128) tx * 65536;	/* 32.32 */
		i128 py = -((i128) cy[j] << (16 + k)) + (i128) ty * 65536;
		/* box is in integer pixels: x1 <= px/2^32 <= x2 (int16 truncation of the result is pixman's documented return type) */
		if (px >= ((i128) INT16_MIN << 32) && px <= ((i128) INT16_MAX << 32) && py >= ((i128) INT16_MIN << 32) && py <= ((i128) INT16_MAX << 32))
		{
		    VP_ASSERT (((i128) bx.x1 << 32) <= px + 32768 && px - 32768 <= ((i128) bx.x2 << 32), "bounds contain corner x");
		    VP_ASSERT (((i128) bx.y1 << 32) <= py + 32768 && py - 32768 <= ((i128) bx.y2 << 32), "bounds contain corner y");
		}
	    }
	}
    }
#elif MODE == 7
    {
	/* fixed <-> double conversions are exact in range and refuse out-of-range values */
	struct pixman_f_transform ft; struct pixman_transform t2;
	for (i = 0; i < 3; i++) for (j = 0; j < 3; j++) VP_SYM_IDX2 (t.matrix, i, j);
	pixman_f_transform_from_pixman_transform (&ft, &t);
	pixman_bool_t ok = pixman_transform_from_pixman_f_transform (&t2, &ft);
	int inrange = 1;
	for (i = 0; i < 3; i++) for (j = 0; j < 3; j++)
	    if (t.matrix[i][j] < -32767 * 65536 || t.matrix[i][j] > 32767 * 65536) inrange = 0;
	VP_ASSERT (ok == inrange, "from_pixman_f_transform accepts exactly |v| <= 32767.0");
	if (ok)
	    for (i = 0; i < 3; i++) for (j = 0; j < 3; j++)
		VP_ASSERT (t2.matrix[i][j] == t.matrix[i][j], "fixed -> double -> fixed is the identity");
    }
#endif
    VP_END ();
}
#ifdef VP_REPLAY
int main (void) { harness (); return 0; }
#endif
