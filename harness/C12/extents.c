/* C12: get_trap_extents of the real pixman-trap.c (the box the temporary mask of
 * pixman_composite_trapezoids is allocated for): for operators on which a zero
 * source has no effect it is exactly the bounding box, in whole pixels, of the
 * valid trapezoids (top/bottom and the four edge end points), in TRAPEZOID
 * space - negative coordinates included; for the other operators it is the whole
 * destination.  Two symbolic trapezoids (16.16 coordinates within +-2^30).   */
#include "vp.h"
#include <config.h>
#include "pixman-trap.c"
static int o_floor (pixman_fixed_t v) { return (int) (((long) v) >> 16); }
static int o_ceil (pixman_fixed_t v) { return (int) (((long) v + 65535) >> 16); }
void harness (void)
{
    static pixman_image_t dst; pixman_trapezoid_t t[2]; pixman_box32_t box; int i;
    for (i = 0; i < 2; i++)
    {
	VP_SYM_IDXF (t, i, top); VP_SYM_IDXF (t, i, bottom);
	VP_SYM_IDXF (t, i, left.p1.x); VP_SYM_IDXF (t, i, left.p1.y); VP_SYM_IDXF (t, i, left.p2.x); VP_SYM_IDXF (t, i, left.p2.y);
	VP_SYM_IDXF (t, i, right.p1.x); VP_SYM_IDXF (t, i, right.p1.y); VP_SYM_IDXF (t, i, right.p2.x); VP_SYM_IDXF (t, i, right.p2.y);
	VP_ASSUME (t[i].top > -(1 << 30) && t[i].bottom < (1 << 30) && t[i].left.p1.x > -(1 << 30) && t[i].left.p1.x < (1 << 30) && t[i].left.p2.x > -(1 << 30) && t[i].left.p2.x < (1 << 30)
		   && t[i].right.p1.x > -(1 << 30) && t[i].right.p1.x < (1 << 30) && t[i].right.p2.x > -(1 << 30) && t[i].right.p2.x < (1 << 30));
    }
    dst.type = BITS; VP_SYM (dst.bits.width); VP_SYM (dst.bits.height); VP_ASSUME (dst.bits.width >= 1 && dst.bits.width <= 32767 && dst.bits.height >= 1 && dst.bits.height <= 32767);
    pixman_bool_t ok = get_trap_extents (OP, &dst, t, 2, &box);
#if ZERO_SRC_NO_EFFECT
    {
	long x1 = 1L << 40, y1 = 1L << 40, x2 = -(1L << 40), y2 = -(1L << 40); int any = 0;
	for (i = 0; i < 2; i++)
	    if (pixman_trapezoid_valid (&t[i]))
	    {
		pixman_fixed_t xs[4] = { t[i].left.p1.x, t[i].left.p2.x, t[i].right.p1.x, t[i].right.p2.x }; int k;
		any = 1;
		if (o_floor (t[i].top) < y1) y1 = o_floor (t[i].top);
		if (o_ceil (t[i].bottom) > y2) y2 = o_ceil (t[i].bottom);
		for (k = 0; k < 4; k++) { if (o_floor (xs[k]) < x1) x1 = o_floor (xs[k]); if (o_ceil (xs[k]) > x2) x2 = o_ceil (xs[k]); }
	    }
	if (any && x1 < x2 && y1 < y2)
	    VP_ASSERT (ok && box.x1 == x1 && box.y1 == y1 && box.x2 == x2 && box.y2 == y2, "extents == pixel bounding box of the valid trapezoids, in trapezoid space (negative coordinates kept)");
	else
	    VP_ASSERT (!ok, "no valid trapezoid / empty box: nothing to draw");
    }
#else
    VP_ASSERT (ok && box.x1 == 0 && box.y1 == 0 && box.x2 == dst.bits.width && box.y2 == dst.bits.height, "operators affected by a zero source composite across the whole destination");
#endif
    VP_END ();
}
#ifdef VP_REPLAY
int main (void) { harness (); return 0; }
#endif
