/* C12 y-grid and edge stepping of the real pixman-trap.c.
 * -DMODE 0: pixman_sample_ceil_y / floor_y against an independently defined
 *           sample grid, all 32-bit y, depth -DNB in {1,4,8}
 *        1: pixman_edge_step additivity and error-term invariant
 *        2: RENDER_EDGE_STEP_SMALL/BIG == pixman_edge_step (STEP_Y_SMALL/BIG)  */
#include "vp.h"
#include <config.h>
#include "pixman-trap.c"
#if MODE == 2
#include "pixman-edge.c"	/* defines RENDER_EDGE_STEP_SMALL/BIG */
#endif

/* the oracle's own description of the grid: NY rows per pixel */
#if NB == 1
#define NY 1
#elif NB == 4
#define NY 3
#else
#define NY 15
#endif
static int o_row (int k)	/* fractional position of row k (0..NY-1), 16.16 */
{
    int small = 65536 / NY, big = 65536 - (NY - 1) * small;
    return big / 2 + k * small;
}
static int o_on_grid (pixman_fixed_t v)
{
    int k, f = v & 0xffff, r = 0;
    for (k = 0; k < NY; k++) if (f == o_row (k)) r = 1;
    return r;
}

void harness (void)
{
#if MODE == 0
    pixman_fixed_t y, c, f; int k;
    VP_SYM (y);
    c = pixman_sample_ceil_y (y, NB);
    f = pixman_sample_floor_y (y, NB);
    int yi = y >> 16, yf = y & 0xffff;
    /* ceil: smallest grid row >= y, except when it would leave the 16.16 range */
    if (!(yi == 0x7fff && yf > o_row (NY - 1)))
    {
	VP_ASSERT (o_on_grid (c) && c >= y, "ceil_y: a grid row not above... at or after y");
	/* no grid row in [y, c): the previous row is < y */
	pixman_fixed_t prev = (c & 0xffff) == o_row (0) ? (pixman_fixed_t) ((int64_t) (c & ~0xffff) - 65536 + o_row (NY - 1)) : 0;
	for (k = 1; k < NY; k++) if ((c & 0xffff) == o_row (k)) prev = (c & ~0xffff) | o_row (k - 1);
	if (!((c >> 16) == -32768 && (c & 0xffff) == o_row (0)))
	    VP_ASSERT (prev < y, "ceil_y: no earlier grid row is >= y");
    }
    else
	VP_ASSERT (c == (pixman_fixed_t) 0x7fffffff, "ceil_y saturates at the top of the range");
    if (!(yi == -32768 && yf <= o_row (0)))
    {
	VP_ASSERT (o_on_grid (f) && f < y, "floor_y: a grid row strictly before y");
	pixman_fixed_t next = (f & 0xffff) == o_row (NY - 1) ? (pixman_fixed_t) ((int64_t) (f & ~0xffff) + 65536 + o_row (0)) : 0;
	for (k = 0; k + 1 < NY; k++) if ((f & 0xffff) == o_row (k)) next = (f & ~0xffff) | o_row (k + 1);
	if (!((f >> 16) == 32767 && (f & 0xffff) == o_row (NY - 1)))
	    VP_ASSERT (next >= y, "floor_y: no later grid row is < y");
    }
    else
	VP_ASSERT (f == (pixman_fixed_t) 0x80000000, "floor_y saturates at the bottom of the range");
#else
    pixman_edge_t e, e1, e2;
    pixman_fixed_t x_top, y_top, x_bot, y_bot; int a, b;
    VP_SYM (x_top); VP_SYM (y_top); VP_SYM (x_bot); VP_SYM (y_bot); VP_SYM (a); VP_SYM (b);
    /* trapezoid edges: bottom strictly below top; coordinates within +-2^20 pixels... 16.16 with 12 integer bits */
    VP_ASSUME (y_bot > y_top && x_top >= -(1 << 28) && x_top <= (1 << 28) && x_bot >= -(1 << 28) && x_bot <= (1 << 28));
    VP_ASSUME (y_top >= -(1 << 28) && y_bot <= (1 << 28));
#if MODE == 2
    /* slope bound that keeps n*stepx within int (steeper edges overflow in both formulations alike; outside the claim) */
    VP_ASSUME ((int64_t) y_bot - y_top >= 256 && (int64_t) x_bot - x_top < (1 << 24) && (int64_t) x_bot - x_top > -(1 << 24));
#endif
    /* the rasteriser only steps within the vertical extent of the edge */
    VP_ASSUME (a >= 0 && b >= 0 && (int64_t) a + b <= (int64_t) y_bot - y_top);
    pixman_edge_init (&e, NB, y_top, x_top, y_top, x_bot, y_bot);
    VP_ASSERT (e.x == x_top, "edge starts at the top point");
    VP_ASSERT (e.e <= 0 && e.e >= -(pixman_fixed_48_16_t) e.dy, "error term in [-dy, 0] after init");
    e1 = e; e2 = e;
#if MODE == 1
    pixman_edge_step (&e1, a); pixman_edge_step (&e1, b);
    pixman_edge_step (&e2, a + b);
    VP_ASSERT (e1.x == e2.x && e1.e == e2.e, "stepping by a then b equals stepping by a+b");
    VP_ASSERT (e2.e <= 0 && e2.e >= -(pixman_fixed_48_16_t) e.dy, "error term stays in [-dy, 0]");
    {
	/* x is within one 16.16 unit below the exact intersection X = x_top + n*dx/dy */
	__int128 n = (__int128) (a + b), dxw = (__int128) x_bot - x_top, dyw = (__int128) y_bot - y_top;
	__int128 lhs = ((__int128) e2.x - x_top) * dyw, ex = n * dxw;
	VP_ASSERT (lhs <= ex && ex - lhs <= dyw, "edge x is the exact intersection rounded down by at most one unit");
    }
#else
    {
	pixman_edge_t *p = &e1;
	RENDER_EDGE_STEP_SMALL (p);
	pixman_edge_step (&e2, STEP_Y_SMALL (NB));
	VP_ASSERT (e1.x == e2.x && e1.e == e2.e, "RENDER_EDGE_STEP_SMALL == pixman_edge_step (STEP_Y_SMALL)");
	e1 = e; e2 = e;
	RENDER_EDGE_STEP_BIG (p);
	pixman_edge_step (&e2, STEP_Y_BIG (NB));
	VP_ASSERT (e1.x == e2.x && e1.e == e2.e, "RENDER_EDGE_STEP_BIG == pixman_edge_step (STEP_Y_BIG)");
    }
#endif
#endif
    VP_END ();
}
#ifdef VP_REPLAY
int main (void) { harness (); return 0; }
#endif
