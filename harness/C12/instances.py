from vp.core import Inst

LEVEL = "model_checking"


def instances(tier):
    L = []
    for nb in (1, 4, 8):
        L.append(Inst("ygrid-a%d" % nb, "C12/grid.c", {"MODE": 0, "NB": nb}, link=[], unwind=17,
                      desc={"what": "pixman_sample_ceil_y / floor_y == first grid row >= y / last grid row < y for every 32-bit y, incl. saturation"}))
    for nb, w in ((8, 3), (4, 3), (1, 40)) + (((8, 7), (4, 9), (1, 70)) if tier == "thorough" else ()):
        rw = (w * nb + 31) // 32 + 1
        L.append(Inst("span-a%d-w%d" % (nb, w), "C12/span.c", {"NB": nb, "W": w}, link=[], unwind=3 * rw + 3 + (w if nb > 1 else 3), timeout=900,
                      checks=["--bounds-check", "--pointer-check"],
                      desc={"what": "one sample row of rasterize_edges: abutting spans tile exactly, empty spans add nothing, only the addressed row changes"}))
    for opn, op, z in (("OVER", 3, 1), ("ADD", 12, 1), ("SRC", 1, 0), ("IN", 5, 0)):
        L.append(Inst("trap-extents-" + opn, "C12/extents.c", {"OP": op, "ZERO_SRC_NO_EFFECT": z}, link=[], unwind=6, timeout=600,
                      desc={"what": "get_trap_extents (mask box of composite_trapezoids) == pixel bounding box of the valid trapezoids in trapezoid space / whole destination; two symbolic trapezoids"}))
    for n in ((2,) if tier == "quick" else (2, 3)):
        L.append(Inst("rows-joint-vs-single-a8-n%d" % n, "C12/rows.c", {"W": 8, "NROWS": n}, link=[], unwind=12, timeout=1800, checks=["--bounds-check", "--pointer-check"],
                      desc={"what": "rasterize_edges_8 over several sample rows (span-fill optimisation active) == the same rows rasterised one at a time; edge positions and per-row steps symbolic"}))
    # MEASURED: -DW=14 -DNROWS=3 (wide enough for two disjoint spans of more than 4 pixels: a pending fill accumulated over two rows, then a
    # jump) finds C12-seed1 in 521 s (seeded/C12-seed1/check.log), but gives no verdict on the unchanged tree within 1300 s - not registered.
    return L


TEXT = ("Bounded model checking of the real trapezoid code: pixman_sample_ceil_y/floor_y return exactly the first grid row >= y / the last "
        "grid row < y of an independently defined sample grid for every 32-bit y and depths 1/4/8, including saturation at the ends of "
        "the range; one sample row of rasterize_edges_1/4/8 obeys the tiling law of the statement (abutting spans [lx,mx)+[mx,rx) leave "
        "exactly what [lx,rx) leaves), adds nothing for empty spans, changes only the addressed row and adds the full sample count over "
        "whole pixels, for all edge positions within 4 pixels of the image.")
NOTE = ("Not decided: exactness of the edge walker against the rational intersection (needs symbolic division/multiplication by dy: no "
        "verdict in 600 s) and the end-to-end sample count of whole trapezoids; pixman_edge_step drops the accumulated error term when no x "
        "carry occurs (upstream behaviour, changes nothing the tests pin down) - noted in DESIGN.md, not asserted. Edge x beyond 4 pixels of "
        "the image (a1: x + 0x7fff overflows for x >= 32767.5) is outside the bound.")
RULE = "C12 instance = mechanism x depth x image width."
BOUNDS = {"y": "all 32-bit values", "span": "edge x within 4 pixels of a 3..40 pixel wide image, one sample row"}
OUTSIDE = ["edge walker exactness (pixman_edge_init/step vs rational intersection)", "whole-trapezoid sample counts and composite_trapezoids routes", "edge x coordinates far outside the image"]
ASSUMPTIONS = ["span check starts from a zeroed image (no saturation)"]
