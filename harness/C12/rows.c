/* C12: several sample rows of one pixel row through the real rasterize_edges_8
 * (with its span-fill optimisation: pending fills, flushes, memset shortcut)
 * against the same rows rasterised ONE AT A TIME (t == b, where the
 * optimisation cannot accumulate anything): identical a8 image.  Edges move by
 * a symbolic amount per sample row (stepx_small), so consecutive spans may
 * overlap, nest or be disjoint.  -DW image width (>= 7 so spans exceed 4
 * pixels), -DNROWS sample rows (2..3).                                       */
#include "vp.h"
#include <config.h>
#include "pixman-edge.c"
#ifndef W
#define W 8
#endif
#ifndef NROWS
#define NROWS 3
#endif
#define ROWWORDS ((W + 3) / 4 + 1)
static uint32_t bufA[2 * ROWWORDS], bufB[2 * ROWWORDS];
static pixman_image_t imgA, imgB;
static void mk (pixman_image_t *im, uint32_t *buf)
{
    int i; for (i = 0; i < 2 * ROWWORDS; i++) buf[i] = 0;
    im->type = BITS; im->bits.format = PIXMAN_a8; im->bits.width = W; im->bits.height = 2; im->bits.bits = buf; im->bits.rowstride = ROWWORDS;
    im->bits.read_func = 0; im->bits.write_func = 0;
}
static void edge (pixman_edge_t *e, pixman_fixed_t x, pixman_fixed_t step)
{
    e->x = x; e->e = 0; e->dy = 1; e->dx = 0; e->stepx = 0; e->signdx = 1;
    e->stepx_small = step; e->dx_small = 0; e->stepx_big = step; e->dx_big = 0;
}
void harness (void)
{
    pixman_fixed_t lx, rx, ls, rs, y0 = Y_FRAC_FIRST (8); int i, k; pixman_edge_t l, r;
    VP_SYM (lx); VP_SYM (rx); VP_SYM (ls); VP_SYM (rs);
    VP_ASSUME (lx >= -(1 << 16) && lx <= ((W + 1) << 16) && rx >= -(1 << 16) && rx <= ((W + 1) << 16));
    VP_ASSUME (ls >= -(W << 16) && ls <= (W << 16) && rs >= -(W << 16) && rs <= (W << 16));
    mk (&imgA, bufA); mk (&imgB, bufB);
    edge (&l, lx, ls); edge (&r, rx, rs);
    pixman_rasterize_edges (&imgA, &l, &r, y0, y0 + (NROWS - 1) * STEP_Y_SMALL (8));	/* NROWS sample rows at once */
    for (k = 0; k < NROWS; k++)
    {
	edge (&l, lx + k * ls, 0); edge (&r, rx + k * rs, 0);
	pixman_rasterize_edges (&imgB, &l, &r, y0 + k * STEP_Y_SMALL (8), y0 + k * STEP_Y_SMALL (8));
    }
    for (i = 0; i < 2 * ROWWORDS; i++) VP_ASSERT (bufA[i] == bufB[i], "rows rasterised together (span-fill optimisation) == rows rasterised one by one");
    VP_END ();
}
#ifdef VP_REPLAY
int main (void) { harness (); return 0; }
#endif
