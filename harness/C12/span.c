/* C12 span level: one sample row of the real rasterize_edges_{1,4,8}
 * (pixman-edge.c) for arbitrary left/right edge positions, on a zeroed image.
 * Oracle-free laws from the statement:
 *   tiling    [lx,mx) then [mx,rx) leaves exactly what [lx,rx) leaves
 *   empty     rx <= lx adds nothing
 *   clipping  only the addressed row changes, padding untouched
 *   full      a span covering whole pixels adds the full per-row sample count
 * -DNB 1|4|8, -DW image width in pixels                                      */
#include "vp.h"
#include <config.h>
#include "pixman-edge.c"

#define ROWWORDS ((W * NB + 31) / 32 + 1)	/* one spare word of padding per row */
static uint32_t bufA[3 * ROWWORDS], bufB[3 * ROWWORDS];
static pixman_image_t imgA, imgB;

static void mk (pixman_image_t *im, uint32_t *buf)
{
    int i;
    for (i = 0; i < 3 * ROWWORDS; i++) buf[i] = 0;
    im->type = BITS;
    im->bits.format = NB == 1 ? PIXMAN_a1 : NB == 4 ? PIXMAN_a4 : PIXMAN_a8;
    im->bits.width = W; im->bits.height = 3; im->bits.bits = buf; im->bits.rowstride = ROWWORDS;
    im->bits.read_func = 0; im->bits.write_func = 0;
}
static void span (pixman_image_t *im, pixman_fixed_t lx, pixman_fixed_t rx, pixman_fixed_t y)
{
    pixman_edge_t l, r;
    l.x = lx; r.x = rx;
    l.e = r.e = 0; l.dy = r.dy = 1; l.dx = r.dx = 0; l.stepx = r.stepx = 0; l.signdx = r.signdx = 1;
    l.stepx_small = l.stepx_big = l.dx_small = l.dx_big = 0; r.stepx_small = r.stepx_big = r.dx_small = r.dx_big = 0;
    pixman_rasterize_edges (im, &l, &r, y, y);		/* t == b: exactly one sample row, no stepping */
}

void harness (void)
{
    pixman_fixed_t lx, mx, rx, y = pixman_int_to_fixed (1) + Y_FRAC_FIRST (NB);	/* a sample row of pixel row 1 */
    int i;
    VP_SYM (lx); VP_SYM (mx); VP_SYM (rx);
#ifndef FULLRANGE
    VP_ASSUME (lx >= -(4 << 16) && lx <= ((W + 4) << 16) && rx >= -(4 << 16) && rx <= ((W + 4) << 16));	/* edge x within 4 pixels of the image (stated bound) */
#endif
    mk (&imgA, bufA); mk (&imgB, bufB);
#ifdef FULLRANGE
    /* C04 instance: memory safety only (CBMC bounds checks), any 32-bit edge positions */
    span (&imgB, lx, rx, y);
    for (i = 0; i < 3 * ROWWORDS; i++)
	if (i < ROWWORDS || i >= 2 * ROWWORDS) VP_ASSERT (bufB[i] == 0, "rows other than the addressed one untouched");
    VP_END ();
    return;
#endif
    if (lx <= mx && mx <= rx)
    {
	span (&imgA, lx, mx, y); span (&imgA, mx, rx, y);
	span (&imgB, lx, rx, y);
	for (i = 0; i < 3 * ROWWORDS; i++)
	    VP_ASSERT (bufA[i] == bufB[i], "abutting spans tile: [lx,mx)+[mx,rx) == [lx,rx)");
    }
    else
    {
	span (&imgB, lx, rx, y);
	if (rx <= lx)
	    for (i = 0; i < 3 * ROWWORDS; i++) VP_ASSERT (bufB[i] == 0, "empty or backwards span adds nothing");
    }
    for (i = 0; i < 3 * ROWWORDS; i++)
	if (i < ROWWORDS || i >= 2 * ROWWORDS || i == 2 * ROWWORDS - 1)
	    VP_ASSERT (bufB[i] == 0, "only the addressed row changes; row padding untouched");
#if NB == 8
    if (lx <= 0 && rx >= (W << 16))
	for (i = 0; i < W; i++) VP_ASSERT (((uint8_t *) (bufB + ROWWORDS))[i] == N_X_FRAC (8), "a span over whole pixels adds all 17 samples of the row");
#endif
    VP_END ();
}
#ifdef VP_REPLAY
int main (void) { harness (); return 0; }
#endif
