from vp.core import Inst

LEVEL = "model_checking"
REPEATS = ("NONE", "PAD", "NORMAL", "REFLECT")


def instances(tier):
    L = []
    for rp in REPEATS:
        for ns in ((1, 3) if tier == "quick" else (1, 2, 3, 4)):
            L.append(Inst("walker-safety-%s-n%d" % (rp, ns), "C13/walker.c", {"MODE": 1, "NS": ns, "REPEAT": "PIXMAN_REPEAT_" + rp}, link=[], unwind=ns + 3,
                          checks=["--bounds-check", "--pointer-check"],
                          desc={"what": "ARBITRARY stop positions/colours (unsorted, repeated, out of range) and any 32-bit position: every stop-array access within [-1, n], search loop terminates"}))
        for ns in ((2, 3) if tier == "quick" else (1, 2, 3, 4)):
            L.append(Inst("walker-segment-%s-n%d" % (rp, ns), "C13/walker.c", {"MODE": 2, "NS": ns, "REPEAT": "PIXMAN_REPEAT_" + rp}, link=[], unwind=ns + 3,
                          desc={"what": "sorted stops in [0,1]: the selected segment contains t (after repeat folding), its ends are neighbouring stops of the extended sequence (sentinels from the real gradient_property_changed)"}))
    return L


TEXT = ("Bounded model checking of the real gradient walker (with the sentinel stops written by the real gradient_property_changed): for "
        "ARBITRARY stop lists (1-3 stops, unsorted / repeated / out-of-range positions, any colours), any 32-bit parameter value and all four "
        "repeat modes, every access to the stop array stays within [-1, n] and the stop search terminates (safety claim); for sorted stops in "
        "[0,1] the segment chosen after repeat folding contains t and its ends are neighbouring stops of the periodically extended, mirrored or "
        "padded stop sequence (an independent integer characterisation).")
NOTE = ("The floating-point interpolation itself (colour within one 8-bit step of the exact value) could not be decided: IEEE division and "
        "multiplication against a 128-bit rational oracle gave no verdict in 600 s even with concrete stop positions; linear t, radial and "
        "conical parameters (sqrt, atan2) are outside reach as well. Those parts of the property are not claimed.")
RULE = "C13 instance = claim (safety | segment) x repeat mode x number of stops."
BOUNDS = {"stops": "1-3 (4 at thorough)", "position": "all 32-bit values (safety); [-3.0, 4.0] (segment)"}
OUTSIDE = ["interpolated colour value (float arithmetic)", "linear/radial/conical parameter computation", "wide (float) pipeline"]
ASSUMPTIONS = ["n_stops >= 1 (documented precondition of the constructors)"]
