/* C13: the real gradient walker (pixman-gradient-walker.c) with the sentinels
 * written by the real gradient_property_changed (pixman-image.c).
 * -DREPEAT=PIXMAN_REPEAT_x  -DNS stops
 * -DMODE 0 colour: sorted stops in [0,1] -> result within one 8-bit step of the
 *          exact interpolation (non-premultiplied, then premultiplied)
 *        1 safety: ARBITRARY stop positions (unsorted, repeated, out of range)
 *          and any 32-bit position: indices stay within [-1, n] (CBMC bounds
 *          checks on the stop array), no non-terminating loop                  */
#include "vp.h"
#include <config.h>
#include "pixman-image.c"
#include "pixman-gradient-walker.c"
#ifndef NS
#define NS 2
#endif

void harness (void)
{
    static pixman_image_t img;
    pixman_gradient_stop_t store[NS + 2];
    pixman_gradient_walker_t w;
    int i; int32_t pos; uint32_t out = 0;
    for (i = 0; i < NS; i++)
    {
	VP_SYM_IDXF (store, i + 1, x);
	VP_SYM_IDXF (store, i + 1, color.red); VP_SYM_IDXF (store, i + 1, color.green);
	VP_SYM_IDXF (store, i + 1, color.blue); VP_SYM_IDXF (store, i + 1, color.alpha);
    }
    VP_SYM (pos);
    img.gradient.stops = store + 1; img.gradient.n_stops = NS; img.common.repeat = REPEAT;
#if MODE == 0 || MODE == 2
    for (i = 1; i <= NS; i++)
    {
	VP_ASSUME (store[i].x >= 0 && store[i].x <= 65536 && (i == 1 || store[i - 1].x <= store[i].x));
#ifdef XFIX
	/* concrete stop positions per instance (a symbolic segment width makes the float reciprocal symbolic: no verdict in 600 s) */
	{ static const int xf[] = { XFIX }; VP_ASSUME (store[i].x == xf[i - 1]); }
#endif
#ifdef OPAQUE
	VP_ASSUME (store[i].color.alpha == 0xffff);
#endif
#ifdef GRID8
	VP_ASSUME ((store[i].x & 0xff) == 0);
	VP_ASSUME (store[i].color.red % 257 == 0 && store[i].color.green % 257 == 0 && store[i].color.blue % 257 == 0 && store[i].color.alpha % 257 == 0);
#endif
    }
    VP_ASSUME (pos >= -(3 << 16) && pos <= (4 << 16));
#endif
    gradient_property_changed (&img);
    _pixman_gradient_walker_init (&w, &img.gradient, REPEAT);
    _pixman_gradient_walker_write_narrow (&w, pos, &out);
#if MODE == 0
    {
	/* the oracle: fold pos by the repeat mode, find the neighbouring stops, interpolate exactly */
	int64_t t = pos, lx, rx; const pixman_color_t *lc, *rc; static const pixman_color_t zero = { 0, 0, 0, 0 };
	if (REPEAT == PIXMAN_REPEAT_NORMAL) t = pos & 0xffff;
	else if (REPEAT == PIXMAN_REPEAT_REFLECT) { t = pos & 0xffff; if (pos & 0x10000) t = 0x10000 - t; }
	/* neighbours among the user stops; outside: per repeat mode */
	int k = 0; for (i = 1; i <= NS; i++) if (store[i].x <= t) k = i;	/* last stop at or before t */
	if (k >= 1 && k < NS) { lx = store[k].x; rx = store[k + 1].x; lc = &store[k].color; rc = &store[k + 1].color; }
	else if (REPEAT == PIXMAN_REPEAT_NONE) { lx = 0; rx = 0; lc = rc = &zero; }
	else if (REPEAT == PIXMAN_REPEAT_PAD) { lx = rx = 0; lc = rc = (k == 0 ? &store[1].color : &store[NS].color); }
	else if (REPEAT == PIXMAN_REPEAT_NORMAL)
	{   /* wrap-around segment between the last and the first stop */
	    lx = store[NS].x - (k == 0 ? 65536 : 0); rx = store[1].x + (k == 0 ? 0 : 65536); lc = &store[NS].color; rc = &store[1].color;
	}
	else
	{   /* reflect: mirrored neighbour is the same stop */
	    lx = rx = 0; lc = rc = (k == 0 ? &store[1].color : &store[NS].color);
	}
	/* exact alpha numerator over den = (rx-lx)*65535 (or lc if the segment is degenerate) */
	int64_t den = rx - lx;
	if (den > 0 && !(REPEAT == PIXMAN_REPEAT_NONE && (k == 0 || k == NS)))
	{
	    __int128 an = (__int128) lc->alpha * (rx - t) + (__int128) rc->alpha * (t - lx);	/* / (den*65535) */
	    __int128 D = (__int128) den * 65535;
	    int oa = out >> 24;
	    VP_ASSERT ((__int128) oa * D - 255 * an <= D && 255 * an - (__int128) oa * D <= D, "alpha within one 8-bit step of the exact stop interpolation");
	    int c;
	    for (c = 0; c < 3; c++)
	    {
		int lv = c == 0 ? lc->blue : c == 1 ? lc->green : lc->red, rv = c == 0 ? rc->blue : c == 1 ? rc->green : rc->red;
		__int128 cn = (__int128) lv * (rx - t) + (__int128) rv * (t - lx);
		int oc = (out >> (8 * c)) & 0xff;
		/* premultiplied exact value = 255 * (cn/D) * (an/D) */
		VP_ASSERT ((__int128) oc * D * D - 255 * cn * an <= D * D && 255 * cn * an - (__int128) oc * D * D <= D * D, "premultiplied colour within one 8-bit step of the exact interpolation");
	    }
	}
	else if (REPEAT == PIXMAN_REPEAT_NONE && (k == 0 || k == NS) && !(k == NS && store[NS].x > t))
	    VP_ASSERT (k == NS && store[NS].x == t ? 1 : out == 0, "outside the stops a non-repeating gradient is transparent");
    }
#endif
#if MODE == 2
    {
	/* segment selection (integer part of the walker): after the call the cached
	 * segment [left_x, right_x) contains pos, both ends are stop positions of the
	 * periodically extended / mirrored / padded stop sequence, and no stop lies
	 * strictly inside it */
	int64_t L = w.left_x, R = w.right_x, P = REPEAT == PIXMAN_REPEAT_NORMAL ? 65536 : 131072;
	int lok = 0, rok = 0, inside = 0;
	/* half-open [L, R): a position that coincides with a stop belongs to the segment that STARTS there (so t == first stop
	 * paints the first stop's colour, and a hard stop shows the later colour); an empty segment is admissible only when
	 * the neighbouring stops coincide; in the mirrored halves of REFLECT the convention is flipped by the mirroring */
	if (REPEAT == PIXMAN_REPEAT_REFLECT && (pos & 0x10000))
	    VP_ASSERT (L <= pos && pos <= R, "mirrored half: selected segment contains the position");
	else
	    VP_ASSERT (L <= pos && (pos < R || L == R), "selected segment [L, R) contains the position");
	for (i = 1; i <= NS; i++)
	{
	    int64_t sx = store[i].x;
	    if (REPEAT == PIXMAN_REPEAT_NONE || REPEAT == PIXMAN_REPEAT_PAD)
	    {
		if (L == sx) lok = 1; if (R == sx) rok = 1;
		if (sx > L && sx < R) inside = 1;
	    }
	    else
	    {
		int m;
		for (m = 0; m < (REPEAT == PIXMAN_REPEAT_REFLECT ? 2 : 1); m++)
		{
		    int64_t b = m ? -sx : sx;			/* mirrored copy for REFLECT */
		    if (((L - b) % P + P) % P == 0) lok = 1;
		    if (((R - b) % P + P) % P == 0) rok = 1;
		    /* smallest extended position strictly greater than L */
		    int64_t d = (((b - L) % P) + P) % P; if (d == 0) d = P;
		    if (L + d < R) inside = 1;
		}
	    }
	}
	if (REPEAT == PIXMAN_REPEAT_NONE || REPEAT == PIXMAN_REPEAT_PAD) { if (L == INT32_MIN) lok = 1; if (R == INT32_MAX) rok = 1; }
	VP_ASSERT (lok && rok, "segment ends are stop positions of the extended stop sequence");
	VP_ASSERT (!inside, "no stop lies strictly inside the selected segment (neighbouring stops)");
    }
#endif
    VP_END ();
}
#ifdef VP_REPLAY
int main (void) { harness (); return 0; }
#endif
