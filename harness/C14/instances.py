from vp.core import Inst

LEVEL = "model_checking"
SETTERS = {0: "set_repeat", 1: "set_transform", 2: "set_filter", 3: "set_clip_region32", 4: "set_source_clipping", 5: "set_alpha_map",
           6: "set_component_alpha", 7: "set_accessors", 8: "set_indexed", 9: "set_dither", 10: "set_dither_offset", 11: "set_clip_region16"}


def instances(tier):
    L = []
    for k, n in SETTERS.items():
        L.append(Inst("setter-" + n, "C14/setters.c", {"SETTER": k}, link=["pixman-utils.c", "pixman-region32.c", "pixman-region16.c"], unwind=40, timeout=600,
                      desc={"what": "one setter from an arbitrary clean image state with symbolic arguments: dirty afterwards, or no rendering-relevant property changed"}))
    L.append(Inst("validate-function-of-properties", "C14/setters.c", {"SETTER": 100}, link=["pixman-utils.c", "pixman-region32.c", "pixman-region16.c"], unwind=40, timeout=600,
                  desc={"what": "_pixman_image_validate overwrites garbage derived state with the same values a fresh image with equal properties gets"}))
    return L


TEXT = ("Inductive bounded model checking on the real pixman-image.c: from an ARBITRARY clean image state (every property field symbolic, "
        "dirty == FALSE) each of the 12 property setters with symbolic arguments either marks the image dirty or leaves every "
        "rendering-relevant property unchanged (so no call history can leave stale derived state), and _pixman_image_validate recomputes "
        "flags / extended format code from the properties alone (garbage in the derived fields does not survive); the set_alpha_map step also re-establishes the bookkeeping invariant "
        "alpha_count / ref_count of every map == number of users (a stale count would make a later setter a silent no-op).")
NOTE = ("Image built by hand (BITS, a8r8g8b8 2x2); clip regions single rectangles; the fast-path cache lemma (L3) and the end-to-end "
        "sequence comparison are not built; gradient sentinel refresh is checked under C13 (gradient_property_changed is called by the harness there).")
RULE = "C14 instance = one setter (inductive step) | validate lemma."
BOUNDS = {"state": "all scalar properties symbolic; transform / filter parameter contents symbolic; alpha map from a pool of 2"}
OUTSIDE = ["separable-convolution parameter blocks in set_filter", "multi-rectangle clip regions", "fast-path cache transparency", "bits_image_property_changed accessor re-selection"]
ASSUMPTIONS = ["allocation succeeds (failure is C15)"]
