/* C14-L1: every property setter of the real pixman-image.c, applied to an image
 * in an ARBITRARY clean state (property fields symbolic, dirty == FALSE) with
 * symbolic arguments, either marks the image dirty (so that validate recomputes
 * all derived state) or leaves every rendering-relevant property unchanged.
 * This is the inductive step that makes "no setter leaves stale derived state"
 * hold for call histories of any length.  -DSETTER selects the setter.
 * C14-L2 (-DSETTER=100): _pixman_image_validate is a function of the properties:
 * derived fields (flags, extended_format_code) pre-filled with garbage are
 * recomputed to the same values as for a fresh image with equal properties.   */
#include "vp.h"
#include <config.h>
#include "pixman-image.c"

typedef struct
{
    pixman_repeat_t repeat; pixman_filter_t filter; int n_params; pixman_fixed_t p0;
    int has_t; pixman_transform_t t; pixman_bool_t have_clip; pixman_box32_t clip; pixman_bool_t clip_sources;
    bits_image_t *amap; int ax, ay; pixman_bool_t ca; const pixman_indexed_t *indexed;
    pixman_read_memory_func_t rf; pixman_write_memory_func_t wf; pixman_dither_t dither; uint32_t dox, doy;
} props_t;

static void snap (pixman_image_t *im, props_t *p)
{
    p->repeat = im->common.repeat; p->filter = im->common.filter; p->n_params = im->common.n_filter_params;
    p->p0 = im->common.filter_params ? im->common.filter_params[0] : 0;
    p->has_t = im->common.transform != NULL;
    if (p->has_t) p->t = *im->common.transform;
    p->have_clip = im->common.have_clip_region; p->clip = im->common.clip_region.extents; p->clip_sources = im->common.clip_sources;
    p->amap = im->common.alpha_map; p->ax = im->common.alpha_origin_x; p->ay = im->common.alpha_origin_y;
    p->ca = im->common.component_alpha; p->indexed = im->bits.indexed; p->rf = im->bits.read_func; p->wf = im->bits.write_func;
    p->dither = im->bits.dither; p->dox = im->bits.dither_offset_x; p->doy = im->bits.dither_offset_y;
}
static int same (const props_t *a, const props_t *b)
{
    int i, j, ok = 1;
    if (a->repeat != b->repeat || a->filter != b->filter || a->n_params != b->n_params || a->p0 != b->p0 || a->has_t != b->has_t) ok = 0;
    if (a->has_t && b->has_t) for (i = 0; i < 3; i++) for (j = 0; j < 3; j++) if (a->t.matrix[i][j] != b->t.matrix[i][j]) ok = 0;
    if (a->have_clip != b->have_clip || a->clip_sources != b->clip_sources) ok = 0;
    if (a->have_clip && (a->clip.x1 != b->clip.x1 || a->clip.x2 != b->clip.x2 || a->clip.y1 != b->clip.y1 || a->clip.y2 != b->clip.y2)) ok = 0;
    if (a->amap != b->amap || a->ax != b->ax || a->ay != b->ay || a->ca != b->ca || a->indexed != b->indexed) ok = 0;
    if (a->rf != b->rf || a->wf != b->wf || a->dither != b->dither || a->dox != b->dox || a->doy != b->doy) ok = 0;
    return ok;
}

void harness (void)
{
    static pixman_image_t img, amap1, amap2;
    static pixman_transform_t t0, targ;
    static pixman_indexed_t pal1, pal2;
    static pixman_fixed_t fp0[1], fparg[1];
    props_t before, after; int i, j, has_t, sel;
    img.type = BITS; img.bits.format = PIXMAN_a8r8g8b8; img.bits.width = 2; img.bits.height = 2; img.common.ref_count = 1;
    amap1.type = amap2.type = BITS; amap1.common.ref_count = amap2.common.ref_count = 2;
    VP_SYM (img.common.repeat); VP_SYM (img.common.filter); VP_SYM (img.common.clip_sources); VP_SYM (img.common.component_alpha);
    VP_SYM (img.common.have_clip_region); VP_SYM_BOX (img.common.clip_region.extents); img.common.clip_region.data = NULL;
    VP_ASSUME (img.common.clip_region.extents.x1 < img.common.clip_region.extents.x2 && img.common.clip_region.extents.y1 < img.common.clip_region.extents.y2);
    VP_SYM (has_t); for (i = 0; i < 3; i++) for (j = 0; j < 3; j++) { VP_SYM_IDX2 (t0.matrix, i, j); VP_SYM_IDX2 (targ.matrix, i, j); }
    if (has_t) { pixman_transform_t *tp = malloc (sizeof *tp); VP_ASSUME (tp != NULL); *tp = t0; img.common.transform = tp; } else img.common.transform = NULL;	/* owned, as the setters free it */
    VP_SYM (sel); img.common.alpha_map = sel == 1 ? &amap1.bits : NULL; if (sel == 1) amap1.common.alpha_count = 1;
    VP_SYM (img.common.alpha_origin_x); VP_SYM (img.common.alpha_origin_y);
    VP_SYM (img.bits.dither); VP_SYM (img.bits.dither_offset_x); VP_SYM (img.bits.dither_offset_y);
    { int k; VP_SYM (k); img.bits.indexed = k == 1 ? &pal1 : k == 2 ? &pal2 : NULL; }
    { int k; VP_SYM (k); img.bits.read_func = k & 1 ? (pixman_read_memory_func_t) 1 : 0; img.bits.write_func = k & 2 ? (pixman_write_memory_func_t) 1 : 0; }
    VP_SYM_IDX (fp0, 0); VP_SYM_IDX (fparg, 0);
    { int k; VP_SYM (k); if (k) { pixman_fixed_t *fp = malloc (sizeof *fp); VP_ASSUME (fp != NULL); *fp = fp0[0]; img.common.filter_params = fp; } else img.common.filter_params = NULL; img.common.n_filter_params = k ? 1 : 0; }
    img.common.dirty = FALSE;
    snap (&img, &before);
#if SETTER == 0
    { pixman_repeat_t r; VP_SYM (r); pixman_image_set_repeat (&img, r);
      VP_ASSERT (img.common.repeat == r, "set_repeat establishes the requested value"); }
#elif SETTER == 1
    { int k; VP_SYM (k); pixman_bool_t ok = pixman_image_set_transform (&img, k == 0 ? NULL : k == 1 ? img.common.transform : &targ);
      if (ok && k >= 2)
      {   /* the requested matrix is in force (identity is stored as "no transform") */
	  int ident = targ.matrix[0][0] == 65536 && targ.matrix[1][1] == 65536 && targ.matrix[2][2] == 65536 && !targ.matrix[0][1] && !targ.matrix[0][2] && !targ.matrix[1][0] && !targ.matrix[1][2] && !targ.matrix[2][0] && !targ.matrix[2][1];
	  if (ident) VP_ASSERT (img.common.transform == NULL, "identity is stored as no transform");
	  else VP_ASSERT (img.common.transform && memcmp (img.common.transform, &targ, sizeof targ) == 0, "set_transform establishes the requested matrix");
      }
      if (ok && k == 0) VP_ASSERT (img.common.transform == NULL, "NULL removes the transform"); }
#elif SETTER == 2
    { pixman_filter_t f; int k; VP_SYM (f); VP_SYM (k);
      VP_ASSUME (f != PIXMAN_FILTER_SEPARABLE_CONVOLUTION);
      pixman_fixed_t *oldp = img.common.filter_params; pixman_filter_t oldf = img.common.filter;
      pixman_bool_t ok = pixman_image_set_filter (&img, f, k == 0 ? NULL : k == 1 ? oldp : fparg, k == 0 ? 0 : 1);
      if (ok && !(k == 1 && f == oldf))
      {
	  VP_ASSERT (img.common.filter == f, "set_filter establishes the requested filter");
	  if (k == 0) VP_ASSERT (img.common.filter_params == NULL && img.common.n_filter_params == 0, "no parameters");
	  if (k >= 2) VP_ASSERT (img.common.n_filter_params == 1 && img.common.filter_params && img.common.filter_params[0] == fparg[0], "set_filter establishes the requested parameters");
      } }
#elif SETTER == 3
    { pixman_region32_t r; int k; VP_SYM (k); VP_SYM_BOX (r.extents); r.data = NULL; VP_ASSUME (r.extents.x1 < r.extents.x2 && r.extents.y1 < r.extents.y2);
      pixman_bool_t ok = pixman_image_set_clip_region32 (&img, k ? &r : NULL);
      if (ok && k) VP_ASSERT (img.common.have_clip_region && img.common.clip_region.extents.x1 == r.extents.x1 && img.common.clip_region.extents.y2 == r.extents.y2, "set_clip_region32 establishes the requested clip");
      if (ok && !k) VP_ASSERT (!img.common.have_clip_region, "NULL removes the clip"); }
#elif SETTER == 4
    { pixman_bool_t b; VP_SYM (b); pixman_image_set_source_clipping (&img, b); }
#elif SETTER == 5
    { int k, x, y; VP_SYM (k); VP_SYM (x); VP_SYM (y); VP_ASSUME (x >= -32768 && x <= 32767 && y >= -32768 && y <= 32767);
      /* bookkeeping invariant of alpha maps (a stale alpha_count makes a LATER set_alpha_map on the former map a silent no-op,
       * i.e. history-dependent rendering): alpha_count / ref_count of a map == other users + (img uses it) */
      int e1, e2, u1 = img.common.alpha_map == &amap1.bits, own; VP_SYM (e1); VP_SYM (e2); VP_SYM (own); VP_ASSUME (e1 >= 0 && e1 <= 3 && e2 >= 0 && e2 <= 3 && own >= 0 && own <= 2);
      amap1.common.alpha_count = e1 + u1; amap1.common.ref_count = 1 + e1 + u1; amap2.common.alpha_count = e2; amap2.common.ref_count = 1 + e2;
      img.common.alpha_count = own;	/* img itself serves as alpha map of `own` other images */
      VP_ASSUME (!(own > 0 && u1));	/* an image that is an alpha map has none of its own (refused by the setter) */
      pixman_image_t *req = k == 0 ? NULL : k == 1 ? &amap1 : &amap2;
      pixman_image_set_alpha_map (&img, req, x, y);
      int n1 = img.common.alpha_map == &amap1.bits, n2 = img.common.alpha_map == &amap2.bits;
      VP_ASSERT (amap1.common.alpha_count == e1 + n1 && amap2.common.alpha_count == e2 + n2, "alpha_count of every map == number of images using it, after any replace/attach/detach");
      VP_ASSERT (amap1.common.ref_count == 1 + e1 + n1 && amap2.common.ref_count == 1 + e2 + n2, "ref_count of every map follows its users");
      if (own == 0 || req == NULL)
	  VP_ASSERT (img.common.alpha_map == (bits_image_t *) req && (req == NULL || (img.common.alpha_origin_x == x && img.common.alpha_origin_y == y)), "set_alpha_map establishes the requested map and origin");
      else
	  VP_ASSERT (img.common.alpha_map == NULL, "an image in use as an alpha map is refused a map of its own"); }
#elif SETTER == 6
    { pixman_bool_t b; VP_SYM (b); pixman_image_set_component_alpha (&img, b); VP_ASSERT (img.common.component_alpha == b, "set_component_alpha establishes the requested value"); }
#elif SETTER == 7
    { int k; VP_SYM (k); pixman_image_set_accessors (&img, k & 1 ? (pixman_read_memory_func_t) 1 : 0, k & 2 ? (pixman_write_memory_func_t) 1 : 0); }
#elif SETTER == 8
    { int k; VP_SYM (k); pixman_image_set_indexed (&img, k == 1 ? &pal1 : k == 2 ? &pal2 : NULL); }
#elif SETTER == 9
    { pixman_dither_t dd; VP_SYM (dd); pixman_image_set_dither (&img, dd); }
#elif SETTER == 10
    { int x, y; VP_SYM (x); VP_SYM (y); pixman_image_set_dither_offset (&img, x, y); }
#elif SETTER == 11
    { pixman_region16_t r; int k; VP_SYM (k); VP_SYM_BOX (r.extents); r.data = NULL; VP_ASSUME (r.extents.x1 < r.extents.x2 && r.extents.y1 < r.extents.y2);
      pixman_image_set_clip_region (&img, k ? &r : NULL); }
#endif
#if SETTER < 100
    snap (&img, &after);
    VP_ASSERT (img.common.dirty || same (&before, &after), "setter marks the image dirty or changes no rendering-relevant property");
#else
    {
	/* L2: validate recomputes the derived state from the properties alone */
	uint32_t garbage_flags; pixman_format_code_t garbage_code; VP_SYM (garbage_flags); VP_SYM (garbage_code);
	img.common.alpha_map = NULL;
	img.common.dirty = TRUE; img.common.property_changed = NULL;
	static pixman_image_t fresh; fresh = img;
	img.common.flags = garbage_flags; img.common.extended_format_code = garbage_code;
	fresh.common.flags = 0; fresh.common.extended_format_code = 0;
	_pixman_image_validate (&img); _pixman_image_validate (&fresh);
	VP_ASSERT (img.common.flags == fresh.common.flags && img.common.extended_format_code == fresh.common.extended_format_code && !img.common.dirty,
		   "validate derives flags and format code from the current properties only");
	{
	    /* a CLEAN image whose alpha map was modified (dirty) since: validating the image validates the map */
	    static pixman_image_t par, map; uint32_t gflags; VP_SYM (gflags);
	    par = fresh; map = fresh; map.common.alpha_map = NULL; map.common.dirty = TRUE; map.common.flags = gflags;
	    par.common.alpha_map = &map.bits; par.common.dirty = FALSE;
	    _pixman_image_validate (&par);
	    VP_ASSERT (!map.common.dirty && map.common.flags == fresh.common.flags, "validating an image brings its (dirty) alpha map up to date even when the image itself is clean");
	}
    }
#endif
    VP_END ();
}
#ifdef VP_REPLAY
int main (void) { harness (); return 0; }
#endif
