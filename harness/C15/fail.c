/* C15: allocation failure.  Run with CBMC's --malloc-may-fail
 * --malloc-fail-null: EVERY malloc/calloc/realloc call independently returns
 * NULL or succeeds, chosen by the solver, so one query covers all single,
 * multiple and persistent failure patterns of the calls below.  Obligations:
 * no invalid pointer use (pointer/bounds checks), no leak once the harness has
 * released what it owns (--memory-leak-check), and the failure contract of
 * each entry point (NULL / FALSE / broken region that later operations
 * propagate and fini accepts).  -DSCRIPT selects the entry points.          */
#include "api_common.h"
#include <stdlib.h>

/* Fault injection: the library units are compiled with -Dmalloc=vp_malloc
 * -Dcalloc=vp_calloc -Drealloc=vp_realloc, so every allocation of the library
 * goes through these wrappers.  -DFAIL_AT=k fails exactly the k-th allocation,
 * -DFAIL_FROM=k fails the k-th and every later one (persistent failure).
 * (CBMC's own --malloc-may-fail makes every allocation result symbolic; with
 * the function pointers stored in image objects that did not get through
 * symbolic execution - 20 GB - so the failing call is enumerated instead.)  */
int vp_alloc_count, vp_armed;
static int vp_fails (void)
{
    if (!vp_armed) return 0;	/* library start-up (constructor) allocations are not the subject */
    vp_alloc_count++;
#ifdef FAIL_AT
    if (vp_alloc_count == FAIL_AT) return 1;
#endif
#ifdef FAIL_FROM
    if (vp_alloc_count >= FAIL_FROM) return 1;
#endif
    return 0;
}
void *vp_malloc (size_t n) { return vp_fails () ? NULL : malloc (n); }
void *vp_calloc (size_t a, size_t b) { return vp_fails () ? NULL : calloc (a, b); }
void *vp_realloc (void *p, size_t n) { return vp_fails () ? NULL : realloc (p, n); }

void harness (void)
{
    uint32_t px[2]; pixman_color_t c = { 1, 2, 3, 4 };
    VP_SYM_IDX (px, 0); VP_SYM_IDX (px, 1);
    vp_alloc_count = 0; vp_armed = 1;
#if SCRIPT == 0		/* constructors return NULL or a usable object */
    pixman_image_t *a = pixman_image_create_bits (PIXMAN_a8r8g8b8, 2, 1, NULL, 0);
    if (a) { a->bits.bits[0] = px[0]; a->bits.bits[1] = px[1]; VP_ASSERT (pixman_image_get_stride (a) >= 8, "usable image"); pixman_image_unref (a); }
    pixman_image_t *b = pixman_image_create_bits_no_clear (PIXMAN_a1, 33, 2, NULL, 0);
    if (b) { b->bits.bits[3] = px[0]; pixman_image_unref (b); }
    pixman_image_t *s = pixman_image_create_solid_fill (&c);
    if (s) pixman_image_unref (s);
#elif SCRIPT == 1	/* gradient constructors (image + stop array) */
    pixman_gradient_stop_t st[2] = { { 0, { 0, 0, 0, 0 } }, { 65536, { 1, 1, 1, 1 } } };
    pixman_point_fixed_t p1 = { 0, 0 }, p2 = { 65536, 0 };
    pixman_image_t *l = pixman_image_create_linear_gradient (&p1, &p2, st, 2);
    pixman_image_t *r = pixman_image_create_radial_gradient (&p1, &p2, 0, 65536, st, 2);
    pixman_image_t *k = pixman_image_create_conical_gradient (&p1, 0, st, 2);
    if (l) { VP_ASSERT (l->gradient.n_stops == 2 && l->gradient.stops[1].x == 65536, "usable gradient"); pixman_image_unref (l); }
    if (r) pixman_image_unref (r);
    if (k) pixman_image_unref (k);
#elif SCRIPT == 2	/* status-returning setters report FALSE and leave the image usable */
    pixman_image_t *a = pixman_image_create_bits (PIXMAN_a8r8g8b8, 2, 1, px, 8);
    if (a)
    {
	pixman_transform_t t; pixman_transform_init_scale (&t, 2 * 65536, 65536);
	pixman_fixed_t params[3] = { 65536, 65536, 65536 };
	pixman_bool_t ok1 = pixman_image_set_transform (a, &t);
	if (ok1) VP_ASSERT (a->common.transform && a->common.transform->matrix[0][0] == 2 * 65536, "transform installed");
	else VP_ASSERT (a->common.transform == NULL, "failed set_transform leaves no transform");
	pixman_bool_t ok2 = pixman_image_set_filter (a, PIXMAN_FILTER_CONVOLUTION, params, 3);
	if (ok2) VP_ASSERT (a->common.filter == PIXMAN_FILTER_CONVOLUTION && a->common.filter_params[2] == 65536, "filter installed");
	else VP_ASSERT (a->common.filter == PIXMAN_FILTER_NEAREST && a->common.filter_params == NULL, "failed set_filter leaves the old filter");
	if (ok2)
	{   /* replace existing parameters: a failure must keep the old block alive and owned exactly once */
	    pixman_fixed_t params2[3] = { 65536, 65536, 2 * 65536 };
	    pixman_bool_t ok3 = pixman_image_set_filter (a, PIXMAN_FILTER_CONVOLUTION, params2, 3);
	    VP_ASSERT (a->common.filter_params != NULL && a->common.filter_params[2] == (ok3 ? 2 * 65536 : 65536), "after a (failed) replacement the image owns valid parameters: the new ones on success, the old ones on failure");
	}
	pixman_image_unref (a);
    }
#elif SCRIPT == 3	/* region copy: FALSE leaves the designated broken region, which propagates and is accepted by fini */
    static struct { pixman_region32_data_t h; pixman_box32_t b[2]; } store = { { 2, 2 }, { { 0, 0, 2, 1 }, { 0, 1, 1, 2 } } };
    pixman_region32_t src, dst, other;
    src.extents.x1 = 0; src.extents.y1 = 0; src.extents.x2 = 2; src.extents.y2 = 2; src.data = &store.h;
    pixman_region32_init (&dst); pixman_region32_init_rect (&other, 0, 0, 5, 5);
    pixman_bool_t ok = pixman_region32_copy (&dst, &src);
    if (ok)
	VP_ASSERT (pixman_region32_n_rects (&dst) == 2 && pixman_region32_equal (&dst, &src), "copy succeeded");
    else
    {
	VP_ASSERT (!pixman_region32_not_empty (&dst) && pixman_region32_n_rects (&dst) == 0, "failed copy leaves the designated broken region (empty, no rectangles)");
	VP_ASSERT (pixman_region32_intersect (&other, &dst, &other) == FALSE, "operations on the broken region report failure");
	VP_ASSERT (pixman_region32_copy (&other, &dst) , "copying the broken region is accepted");
    }
    pixman_region32_fini (&dst); pixman_region32_fini (&other);
    {
	pixman_region16_t r16; pixman_region_init (&r16);
	pixman_region32_t one; pixman_region32_init_rect (&one, 1, 1, 3, 3);
	pixman_bool_t ok2 = pixman_region16_copy_from_region32 (&r16, &one);
	if (ok2) VP_ASSERT (pixman_region_n_rects (&r16) == 1, "32 -> 16 conversion");
	pixman_region_fini (&r16);
    }
#elif SCRIPT == 4	/* clip region setter with a multi-rectangle region */
    static struct { pixman_region32_data_t h; pixman_box32_t b[2]; } store = { { 2, 2 }, { { 0, 0, 2, 1 }, { 0, 1, 1, 2 } } };
    pixman_region32_t src; src.extents.x1 = 0; src.extents.y1 = 0; src.extents.x2 = 2; src.extents.y2 = 2; src.data = &store.h;
    pixman_image_t *a = pixman_image_create_bits (PIXMAN_a8r8g8b8, 2, 1, px, 8);
    if (a)
    {
	pixman_bool_t ok = pixman_image_set_clip_region32 (a, &src);
	if (ok) VP_ASSERT (a->common.have_clip_region && pixman_region32_n_rects (&a->common.clip_region) == 2, "clip installed");
	pixman_image_unref (a);
    }
#elif SCRIPT == 5	/* filter table constructor and glyph cache */
    int n = 0;
    pixman_fixed_t *f = pixman_filter_create_separable_convolution (&n, 65536, 65536, PIXMAN_KERNEL_BOX, PIXMAN_KERNEL_BOX, PIXMAN_KERNEL_BOX, PIXMAN_KERNEL_BOX, 0, 0);
    if (f) { VP_ASSERT (n == 4 + 2 + 2 && f[0] == 2 * 65536, "usable filter block"); free (f); }
#endif
    VP_ASSERT (vp_alloc_count >= 0, "allocation census");
#ifdef EXPECT_MIN_ALLOCS
    VP_ASSERT (vp_alloc_count >= 1, "at least one allocation site was exercised");
#endif
    VP_END ();
}
#ifdef VP_REPLAY
int main (void) { harness (); return 0; }
#endif
