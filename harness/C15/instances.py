from vp.core import Inst, API_UNWINDSET

LEVEL = "fault_enumeration"
UNITS = ["pixman-image.c", "pixman-bits-image.c", "pixman-utils.c", "pixman-region32.c", "pixman-region16.c", "pixman-solid-fill.c",
         "pixman-linear-gradient.c", "pixman-radial-gradient.c", "pixman-conical-gradient.c", "pixman-filter.c", "pixman-glyph.c", "pixman-matrix.c"]
SCRIPTS = {0: "bits-and-solid-constructors", 1: "gradient-constructors", 2: "set_transform-set_filter", 3: "region-copy-broken-propagation",
           4: "set_clip_region-multirect", 5: "filter-table-and-glyph-cache"}


NALLOC = {0: 6, 1: 6, 2: 4, 3: 3, 4: 2, 5: 3}      # upper bound on allocations per script (instances beyond the real count are harmless)
LIBDEFS = ("-Dmalloc=vp_malloc", "-Dcalloc=vp_calloc", "-Drealloc=vp_realloc")


def instances(tier):
    L = []
    for k, n in SCRIPTS.items():
        for at in range(1, NALLOC[k] + 1):
            for mode in ("FAIL_AT", "FAIL_FROM"):
                if tier == "quick" and mode == "FAIL_FROM" and at > 2:
                    continue
                L.append(Inst("fail-%s-%s%d" % (n, "at" if mode == "FAIL_AT" else "from", at), "C15/fail.c", {"SCRIPT": k, mode: at},
                              link=UNITS, unwind=20, unwindset=("memcmp.0:40",), objbits=10, timeout=900, lib_defs=LIBDEFS,
                              checks=["--pointer-check", "--bounds-check", "--memory-leak-check"], models=("env_stubs.c", "libm_stubs.c"),
                              desc={"what": "the k-th allocation of the called entry points fails (once / persistently): no invalid pointer use, no leak, failure contract holds", "k": at, "mode": mode}))
    return L


TEXT = ("Fault enumeration under bounded symbolic execution with CBMC's heap model: for each entry-point script the k-th allocation of the "
        "library fails (once, or persistently from k on), for every k up to the number of allocations; obligations are decided by the solver: no "
        "invalid pointer use, no leak after the harness released what it owns (--memory-leak-check), and the failure contract - constructors "
        "return NULL or a usable object, set_transform/set_filter report FALSE and leave the previous state, region copy returns FALSE with the "
        "broken region, which later operations propagate and fini accepts.")
NOTE = ("The failing call is enumerated (library units compiled with -Dmalloc=vp_malloc etc.), not chosen by the solver: with --malloc-may-fail "
        "every allocation result becomes symbolic and the function pointers stored in image objects explode symbolic execution (20 GB, no "
        "verdict). The region band sweep, composite-time scanline buffers, trapezoid/glyph temporaries and start-up allocations are not covered.")
RULE = "C15 instance = script x failing allocation index x (single | persistent)."
BOUNDS = {"scripts": 6, "allocation_index": "1..6"}
OUTSIDE = ["pixman_op / validate allocation failures", "general_composite_rect heap scanline buffer", "composite_trapezoids / composite_glyphs temporaries", "implementation set-up at library start"]
ASSUMPTIONS = ["allocation wrappers vp_malloc/vp_calloc/vp_realloc forward to CBMC's heap model"]


def NONTRIVIAL(r):
    return r.witness_inputs is not None and r.n_props > 100
