from vp.core import Inst, API_UNWINDSET

LEVEL = "model_checking"


def instances(tier):
    L = [Inst("validate-clean-image-readonly", "C16/readonly.c", {"MODE": 0}, link=["pixman-utils.c", "pixman-region32.c", "pixman-region16.c"],
              unwind=600, unwindset=("memcmp.0:600",), timeout=900,
              desc={"what": "_pixman_image_validate on an arbitrary CLEAN image object (all bytes symbolic, dirty == FALSE, optional clean alpha map) writes nothing"})]
    for opn, op in (("OVER", 3), ("SRC", 1)) + ((("ADD", 12), ("IN", 5)) if tier == "thorough" else ()):
        L.append(Inst("steady-state-composite-frame-" + opn, "C16/readonly.c", {"MODE": 1, "OP": op, "VP_REL": None}, unwind=14,
                      unwindset=API_UNWINDSET + ("memcmp.0:700",), objbits=12, timeout=900,
                      desc={"what": "second identical composite32: shared source image object and pixels, implementation chain and objects unchanged; same result as the first (cache transparency)"}))
    return L


TEXT = ("Partial claim: the PREMISES of a non-interference argument are decided by bounded model checking of the real code, single-threaded: "
        "(1) _pixman_image_validate writes nothing into a clean image (or its clean alpha map), for an arbitrary image object; (2) a steady-state "
        "pixman_image_composite32 leaves the shared source image object, the source pixels, the implementation-chain pointer and the "
        "implementation objects unchanged and computes the same result as the first request (fast-path cache transparency). Together with "
        "the thread-local storage class of the fast-path cache (PIXMAN_DEFINE_THREAD_LOCAL, visible in the goto symbol table) threads with "
        "private destinations share no written location.")
NOTE = ("Thread interleavings are NOT explored: CBMC's concurrency mode stops with 'pointer handling for concurrency is unsound' on "
        "_pixman_implementation_lookup_composite (probe, DESIGN.md). The data-race freedom and determinism statement itself is therefore not "
        "decided; only this sufficient-condition frame check is. A change that turns the TLS cache into a plain static is not caught by (2) "
        "because single-threaded behaviour is unchanged.")
RULE = "C16 instance = premise (validate read-only | steady-state frame) x operator."
BOUNDS = {"images": "2x1", "schedules": "none (single thread)"}
OUTSIDE = ["all thread schedules / data races (not encodable with the installed tools)", "region, trapezoid and fill entry points", "lazy global_implementation initialisation in builds without constructor support"]
ASSUMPTIONS = ["first use of a shared image happens before sharing (documented precondition)"]
