/* C16 (premises of the non-interference argument; thread schedules themselves
 * are not encodable, see DESIGN.md):
 * -DMODE 0: _pixman_image_validate on a CLEAN image (dirty == FALSE, arbitrary
 *           property values, optional clean alpha map) writes nothing into the
 *           image objects - so threads sharing a clean source only read it.
 * -DMODE 1: (API) a steady-state pixman_image_composite32 - the second of two
 *           identical requests - leaves the source image object, the source
 *           pixels and the implementation objects it went through bit-for-bit
 *           unchanged; everything it writes besides the destination lives in
 *           thread-local or freshly allocated storage.                      */
#include "api_common.h"
#if MODE == 0
#include "pixman-image.c"
void harness (void)
{
    static pixman_image_t img, amap, img0, amap0; int has_map; unsigned char *p = (unsigned char *) &img, *q = (unsigned char *) &amap; unsigned i;
    for (i = 0; i < sizeof img; i++) { VP_SYM_IDX (p, i); VP_SYM_IDX (q, i); }
    VP_SYM (has_map);
    img.common.dirty = FALSE; amap.common.dirty = FALSE; amap.common.alpha_map = NULL;
    img.common.alpha_map = has_map ? &amap.bits : NULL;
    img0 = img; amap0 = amap;
    _pixman_image_validate (&img);
    VP_ASSERT (memcmp (&img, &img0, sizeof img) == 0 && memcmp (&amap, &amap0, sizeof amap) == 0, "validate of a clean image (and its clean alpha map) writes nothing");
    VP_END ();
}
#else
void harness (void)
{
    uint32_t s[2], d1[2], d2[2]; int i; static pixman_image_t snap; static pixman_implementation_t isnap[3];
    for (i = 0; i < 2; i++) { VP_SYM_IDX (s, i); VP_SYM_IDX (d1, i); d2[i] = d1[i]; }
    pixman_image_t *src = vp_img (PIXMAN_a8r8g8b8, 2, 1, s, 2), *da = vp_img (PIXMAN_a8r8g8b8, 2, 1, d1, 2), *db = vp_img (PIXMAN_a8r8g8b8, 2, 1, d2, 2);
    pixman_image_composite32 (OP, src, NULL, da, 0, 0, 0, 0, 0, 0, 2, 1);	/* first use: validates src, initialises the library */
    uint32_t s0 = s[0], s1 = s[1];
    snap = *src;
    extern pixman_implementation_t *global_implementation;
    pixman_implementation_t *top = global_implementation; int n = 0;
    { pixman_implementation_t *c; for (c = top; c && n < 3; c = c->fallback) isnap[n++] = *c; }
    pixman_image_composite32 (OP, src, NULL, db, 0, 0, 0, 0, 0, 0, 2, 1);	/* steady state, as another thread would issue it */
    VP_ASSERT (memcmp (&snap, src, sizeof snap) == 0, "steady-state composite leaves the shared source image object unchanged");
    VP_ASSERT (s[0] == s0 && s[1] == s1, "source pixels unchanged");
    VP_ASSERT (global_implementation == top, "implementation chain pointer unchanged");
    { pixman_implementation_t *c; int k = 0; for (c = top; c && k < n; c = c->fallback, k++) VP_ASSERT (isnap[k].toplevel == c->toplevel && isnap[k].fallback == c->fallback && isnap[k].fast_paths == c->fast_paths && isnap[k].iter_info == c->iter_info && isnap[k].blt == c->blt && isnap[k].fill == c->fill && isnap[k].combine_32[OP] == c->combine_32[OP] && isnap[k].combine_32_ca[OP] == c->combine_32_ca[OP] && isnap[k].combine_float[OP] == c->combine_float[OP], "implementation objects (chain links, tables, combiner pointers) unchanged"); }
    VP_ASSERT (d1[0] == d2[0] && d1[1] == d2[1], "the steady-state request computes the same result as the first one (cache transparency)");
    VP_END ();
}
#endif
#ifdef VP_REPLAY
int main (void) { harness (); return 0; }
#endif
