/* C17: the glyph cache of the real pixman-glyph.c as a map under ARBITRARY
 * histories of freeze / thaw / insert / remove / lookup.
 * Built with the verification hook -DPIXMAN_VERIF_GLYPH_HIGH_WATER=4
 * (HASH_SIZE 8, LOW_WATER 2) so that table-filling histories are in reach.
 * -DNOPS sequence length, -DNKEYS distinct keys.  Image functions are stubbed
 * (an image is an opaque token here; the immutable copy is checked in api.c).  */
#include "vp.h"
#include <config.h>
#include "pixman-private.h"

/* ---- image stubs (only what pixman-glyph.c's cache part uses) ---- */
static int vp_img_live;		/* created - destroyed */
static pixman_image_t vp_tokens[16];
static int vp_ntok;
static pixman_image_t *vp_create_bits (pixman_format_code_t f, int w, int h, uint32_t *b, int s)
{
    VP_ASSERT (vp_ntok < 16, "token pool (harness bound)");
    pixman_image_t *t = &vp_tokens[vp_ntok++];
    t->type = BITS; t->bits.format = f; t->bits.width = w; t->bits.height = h;
    vp_img_live++;
    return t;
}
static pixman_bool_t vp_unref (pixman_image_t *i) { vp_img_live--; return 1; }
#define pixman_image_create_bits vp_create_bits
#define pixman_image_unref vp_unref
#define pixman_image_composite32(...) ((void) 0)
#define pixman_image_set_component_alpha(...) ((void) 0)
#define _pixman_image_validate(...) ((void) 0)
#ifdef VP_CBMC
unsigned int __CPROVER_uninterpreted_glyph_hash (size_t);
#define PIXMAN_VERIF_GLYPH_HASH(k) __CPROVER_uninterpreted_glyph_hash (k)
#else
#define PIXMAN_VERIF_GLYPH_HASH(k) ((unsigned int) ((k) >> 3))
#endif
#include "pixman-glyph.c"
#undef pixman_image_create_bits
#undef pixman_image_unref

#ifndef NOPS
#define NOPS 6
#endif
#ifndef NKEYS
#define NKEYS 5
#endif

void harness (void)
{
    static pixman_glyph_cache_t cache_store;	/* zero-initialised == what create() establishes */
    pixman_glyph_cache_t *c = &cache_store;
    static pixman_image_t src; src.type = BITS; src.bits.format = PIXMAN_a8; src.bits.width = 1; src.bits.height = 1;
    /* model */
    int present[NKEYS], stamp[NKEYS], ox[NKEYS], frozen = 0, now = 0, epoch_fills = 0, k, step;
    /* the history is CONCRETE per instance (-DSCRIPT="..." : F freeze, T thaw, I<k> insert, R<k> remove, L<k> lookup);
     * what is symbolic: the glyph keys (pairwise distinct, otherwise arbitrary) and - through the hash hook -
     * the hash function itself, i.e. every collision pattern */
    static const char script[] = SCRIPT;
    uintptr_t kv[NKEYS]; int a, b2;
    for (a = 0; a < NKEYS; a++) { VP_SYM_IDX (kv, a); for (b2 = 0; b2 < a; b2++) VP_ASSUME (kv[a] != kv[b2]); }
    for (k = 0; k < NKEYS; k++) { present[k] = 0; stamp[k] = 0; ox[k] = 0; }
    memset (c, 0, sizeof *c);
    pixman_list_init (&c->mru);

    for (step = 0; step + 1 < (int) sizeof script; step += 2)
    {
	int opc = script[step] == 'F' ? 0 : script[step] == 'T' ? 1 : script[step] == 'I' ? 2 : script[step] == 'R' ? 3 : 4;
	k = script[step + 1] >= '0' && script[step + 1] <= '9' ? script[step + 1] - '0' : 0;
	void *fk = (void *) (uintptr_t) 0x1000, *gk = (void *) kv[k];
	switch (opc)
	{
	case 0: pixman_glyph_cache_freeze (c); frozen++; break;
	case 1:
	    if (frozen == 0) break;		/* unbalanced thaw is a caller error */
	    {
		int live = 0, before[NKEYS], j;
		for (j = 0; j < NKEYS; j++) { before[j] = present[j]; live += present[j]; }
		pixman_glyph_cache_thaw (c); frozen--;
		for (j = 0; j < NKEYS; j++)
		{
		    const void *g = pixman_glyph_cache_lookup (c, fk, (void *) kv[j]);
		    if (!before[j]) VP_ASSERT (g == NULL, "thaw does not create entries");
		    else if (g == NULL)
		    {
			int i2;
			VP_ASSERT (frozen == 0 && epoch_fills > N_GLYPHS_HIGH_WATER, "entries vanish on thaw only when the cache was above its high-water mark");
			for (i2 = 0; i2 < NKEYS; i2++)
			    if (before[i2] && i2 != j && stamp[i2] < stamp[j])
				VP_ASSERT (pixman_glyph_cache_lookup (c, fk, (void *) kv[i2]) == NULL, "eviction is least-recently-used first");
			present[j] = 0;
		    }
		}
		if (frozen == 0) { int l2 = 0; for (j = 0; j < NKEYS; j++) l2 += present[j]; epoch_fills = l2 + c->n_tombstones; }
	    }
	    break;
	case 2:
	    if (present[k]) break;		/* duplicate insertion of a live key is a caller error */
	    {
		int o; VP_SYM (o);
		const void *g = pixman_glyph_cache_insert (c, fk, gk, o, -o, &src);
		if (frozen == 0) VP_ASSERT (g == NULL, "insert outside freeze/thaw is refused");
		else if (g == NULL) VP_ASSERT (epoch_fills >= HASH_SIZE - 1, "insert is refused only when the table is full");
		if (g) { present[k] = 1; stamp[k] = ++now; ox[k] = o; epoch_fills++; }
	    }
	    break;
	case 3:
	    pixman_glyph_cache_remove (c, fk, gk);
	    present[k] = 0;
	    break;
	default:
	    {
		const glyph_t *g = pixman_glyph_cache_lookup (c, fk, gk);
		VP_ASSERT ((g != NULL) == present[k], "lookup returns the live entry or NULL");
		if (g) VP_ASSERT (g->font_key == fk && g->glyph_key == gk && g->origin_x == ox[k] && g->origin_y == -ox[k], "entry carries the inserted keys and origin");
	    }
	}
	/* representation invariant */
	{
	    int i2, ng = 0, nt = 0, live = 0;
	    for (i2 = 0; i2 < HASH_SIZE; i2++) { if (c->glyphs[i2] == TOMBSTONE) nt++; else if (c->glyphs[i2]) ng++; }
	    for (i2 = 0; i2 < NKEYS; i2++) live += present[i2];
	    VP_ASSERT (ng == c->n_glyphs && nt == c->n_tombstones && ng == live, "n_glyphs / n_tombstones equal the slot census and the model size");
	    VP_ASSERT (vp_img_live == live, "one cached image copy per live entry (no leak, no early release)");
	}
    }
    /* every key is still looked up correctly at the end (terminates even when absent) */
    for (k = 0; k < NKEYS; k++)
	VP_ASSERT ((pixman_glyph_cache_lookup (c, (void *) (uintptr_t) 0x1000, (void *) kv[k]) != NULL) == present[k], "final lookup agrees with the model");
    VP_END ();
}
#ifdef VP_REPLAY
int main (void) { harness (); return 0; }
#endif
