from vp.core import Inst

LEVEL = "model_checking"
HW = {"PIXMAN_VERIF_GLYPH_HIGH_WATER": 2}


def instances(tier):
    L = []
    names = {0: "lookup", 1: "insert"}
    for st in (0, 1):
        d = dict(HW); d["STEP"] = st
        L.append(Inst("step-%s-4slots" % names[st], "C17/step.c", d, link=[], unwind=6, timeout=1500, solver="cadical",
                      unwind_fail_is_violation=True,
                      desc={"what": "one %s from an ARBITRARY 4-slot table state satisfying the representation invariant, keys and hash function symbolic" % names[st]}))
    if tier == "thorough":
        for st in (0,):
            d = {"PIXMAN_VERIF_GLYPH_HIGH_WATER": 4, "STEP": st}
            L.append(Inst("step-%s-8slots" % names[st], "C17/step.c", d, link=[], unwind=10, timeout=3000, solver="cadical",
                          unwind_fail_is_violation=True,
                          desc={"what": "same with an 8-slot table"}))
    return L


TEXT = ("Inductive bounded model checking of the glyph cache's open-addressing table in the real pixman-glyph.c: from an ARBITRARY table "
        "state satisfying the representation invariant (slot census == counters, every live entry reachable by probing, distinct keys, one "
        "empty slot), with symbolic keys and - through a guarded hook - an uninterpreted hash function (every collision pattern), one "
        "lookup returns exactly the live entry or NULL and terminates, and one insert either fills exactly one free slot and re-establishes "
        "the invariant (so later lookups terminate) or refuses, leaking nothing, only when the table is full. Because the step is from an "
        "arbitrary invariant state it covers histories of any length for these two operations.")
NOTE = ("Hooks: PIXMAN_VERIF_GLYPH_HIGH_WATER (small table) and PIXMAN_VERIF_GLYPH_HASH (hash replaced by an uninterpreted function), both "
        "behind FREEDESKTOP_PIXMAN_VERIF. remove (tombstone reclamation), thaw eviction order and the glyph drawing equivalences could not "
        "be decided: the encodings exceed memory/time (5.4M SAT variables for one remove from a 4-slot table; see DESIGN.md) - not claimed. "
        "Image functions are stubbed to opaque tokens in this harness.")
RULE = "C17 instance = operation x table size."
BOUNDS = {"table": "4 slots (8 at thorough)", "keys": "full-width symbolic", "hash": "uninterpreted"}
OUTSIDE = ["pixman_glyph_cache_remove / tombstone reclamation", "thaw eviction (LRU order)", "composite_glyphs / composite_glyphs_no_mask equivalences", "the real table size (32768 slots)"]
ASSUMPTIONS = ["pre-state satisfies the representation invariant RI1-RI4 (harness/C17/step.c)", "inserting a key that is already live is a caller error", "image functions stubbed"]
