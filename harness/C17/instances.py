from vp.core import Inst

LEVEL = "model_checking"
HW = {"PIXMAN_VERIF_GLYPH_HIGH_WATER": 2}


def instances(tier):
    L = []
    names = {0: "lookup", 1: "insert"}
    for st in (0, 1):
        d = dict(HW); d["STEP"] = st
        L.append(Inst("step-%s-4slots" % names[st], "C17/step.c", d, link=[], unwind=6, timeout=1500, solver="cadical",
                      unwind_fail_is_violation=True,
                      desc={"what": "one %s from an ARBITRARY 4-slot table state satisfying the representation invariant, keys and hash function symbolic" % names[st]}))
    # STEP 4 (thaw's dumping branch, 8 slots) ran out of memory: the eviction loop's remove_glyph is part of the encoding even when it cannot run
    for nm, st, hw in (("clear_table-4slots", 3, 2),) + ((("clear_table-8slots", 3, 4),) if tier == "thorough" else ()):
        d = {"PIXMAN_VERIF_GLYPH_HIGH_WATER": hw, "STEP": st}
        L.append(Inst("step-" + nm, "C17/step.c", d, link=[], unwind=2 * hw + 2, timeout=1500, solver="cadical", unwind_fail_is_violation=True,
                      desc={"what": "clear_table / the table-dumping branch of pixman_glyph_cache_thaw from an ARBITRARY invariant state (live entries linked in the MRU list): all slots empty, both counters 0, every image released once, MRU list empty"}))
    if tier == "thorough":
        for st in (0,):
            d = {"PIXMAN_VERIF_GLYPH_HIGH_WATER": 4, "STEP": st}
            L.append(Inst("step-%s-8slots" % names[st], "C17/step.c", d, link=[], unwind=10, timeout=3000, solver="cadical",
                          unwind_fail_is_violation=True,
                          desc={"what": "same with an 8-slot table"}))
    return L


TEXT = ("Inductive bounded model checking of the glyph cache's open-addressing table in the real pixman-glyph.c: from an ARBITRARY table "
        "state satisfying the representation invariant (slot census == counters, every live entry reachable by probing, distinct keys, one "
        "empty slot), with symbolic keys and - through a guarded hook - an uninterpreted hash function (every collision pattern), one "
        "lookup returns exactly the live entry or NULL and terminates, and one insert either fills exactly one free slot and re-establishes "
        "the invariant (so later lookups terminate) or refuses, leaking nothing, only when the table is full. Because the step is from an "
        "arbitrary invariant state it covers histories of any length for these two operations. A third step, clear_table (what thaw calls when "
        "tombstones dominate) from an arbitrary invariant state with the live entries linked in the MRU list, leaves every slot empty, both "
        "counters 0, every image released once and the MRU list empty.")
NOTE = ("Hooks: PIXMAN_VERIF_GLYPH_HIGH_WATER (small table) and PIXMAN_VERIF_GLYPH_HASH (hash replaced by an uninterpreted function), both "
        "behind FREEDESKTOP_PIXMAN_VERIF. remove (tombstone reclamation), thaw eviction order and the glyph drawing equivalences could not "
        "be decided: the encodings exceed memory/time (5.4M SAT variables for one remove from a 4-slot table; see DESIGN.md) - not claimed. "
        "Image functions are stubbed to opaque tokens in this harness.")
RULE = "C17 instance = operation (lookup, insert, clear_table) x table size."
BOUNDS = {"table": "4 slots (8 at thorough)", "keys": "full-width symbolic", "hash": "uninterpreted"}
OUTSIDE = ["pixman_glyph_cache_remove / tombstone reclamation", "thaw as a whole incl. eviction in LRU order (its loop calls remove: out of memory even on the dumping branch)", "composite_glyphs / composite_glyphs_no_mask equivalences", "the real table size (32768 slots)"]
ASSUMPTIONS = ["pre-state satisfies the representation invariant RI1-RI4 (harness/C17/step.c)", "inserting a key that is already live is a caller error", "image functions stubbed"]
