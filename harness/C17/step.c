/* C17 (inductive): ONE cache operation of the real pixman-glyph.c from an
 * ARBITRARY table state that satisfies the hash-table representation
 * invariant RI, instead of exploring call histories:
 *   RI1  n_glyphs / n_tombstones equal the slot census
 *   RI2  every live entry is reachable by linear probing from its hash slot
 *        without crossing an empty slot
 *   RI3  live keys are pairwise distinct
 *   RI4  at least one slot is empty (needed for lookups of absent keys to stop)
 * -DSTEP 0 lookup 1 insert 2 remove 3 clear_table 4 thaw that dumps the table
 * (more tombstones than the high-water mark; for steps 3/4 the live entries of
 * the pre-state are linked into the MRU list).  Hook: -DPIXMAN_VERIF_GLYPH_HIGH_WATER=4
 * (HASH_SIZE 8).  Probe loops that do not terminate within HASH_SIZE+1
 * iterations are reported as violations (unwinding assertions).            */
#include "vp.h"
#include <config.h>
#include "pixman-private.h"
#include <stdlib.h>
static int vp_img_live;
static pixman_image_t vp_token;
static pixman_image_t *vp_create_bits (pixman_format_code_t f, int w, int h, uint32_t *b, int s)
{ vp_token.type = BITS; vp_token.bits.format = f; vp_token.bits.width = w; vp_token.bits.height = h; vp_img_live++; return &vp_token; }
static pixman_bool_t vp_unref (pixman_image_t *i) { vp_img_live--; return 1; }
#define pixman_image_create_bits vp_create_bits
#define free(p) ((void) (p))	/* entries of the pre-state live in harness storage; release is tracked through vp_img_live */
#define pixman_image_unref vp_unref
#define pixman_image_composite32(...) ((void) 0)
#define pixman_image_set_component_alpha(...) ((void) 0)
#define _pixman_image_validate(...) ((void) 0)
#ifdef VP_CBMC
/* hash abstraction (hook): ANY function of the combined key - the claims hold for every hash function */
unsigned int __CPROVER_uninterpreted_glyph_hash (size_t);
#define PIXMAN_VERIF_GLYPH_HASH(k) __CPROVER_uninterpreted_glyph_hash (k)
#else
/* native replay: the hash function is the one the solver chose - its values at
 * the keys that occur are recorded in the trace (hv[i], hq) and looked up here */
static size_t vp_rk[64]; static unsigned vp_rh[64]; static int vp_rn;
static unsigned int vp_replay_hash (size_t k)
{
    int i;
    for (i = 0; i < vp_rn; i++) if (vp_rk[i] == k) return vp_rh[i];
    return (unsigned int) (k >> 3);
}
#define PIXMAN_VERIF_GLYPH_HASH(k) vp_replay_hash (k)
#endif
#include "pixman-glyph.c"
#undef pixman_image_create_bits
#undef pixman_image_unref
#undef free

#define FONT ((void *) (uintptr_t) 0x1000)
#ifndef KEYSPACE
#define KEYSPACE 256	/* glyph keys 0..255 (font key fixed): stated bound; collisions abound at 8 slots */
#endif
static pixman_glyph_cache_t C;
static glyph_t pool[HASH_SIZE];

static int census (int *ng, int *nt)
{
    int i, e = 0; *ng = *nt = 0;
    for (i = 0; i < HASH_SIZE; i++) { if (C.glyphs[i] == TOMBSTONE) (*nt)++; else if (C.glyphs[i]) (*ng)++; else e++; }
    return e;
}
/* RI2 for the entry in slot i */
static int reachable (int i)
{
    glyph_t *g = C.glyphs[i];
    unsigned h = hash (g->font_key, g->glyph_key) & HASH_MASK, j, ok = 1, d = (i - h) & HASH_MASK;
    for (j = 0; j < HASH_SIZE; j++)
	if (j < d && C.glyphs[(h + j) & HASH_MASK] == NULL) ok = 0;
    return ok;
}
static int ri_holds (int need_empty)
{
    int ng, nt, e, i, j, ok = 1;
    e = census (&ng, &nt);
    if (ng != C.n_glyphs || nt != C.n_tombstones) ok = 0;
    if (need_empty && e < 1) ok = 0;
    for (i = 0; i < HASH_SIZE; i++)
	if (C.glyphs[i] && C.glyphs[i] != TOMBSTONE)
	{
	    if (!reachable (i)) ok = 0;
	    for (j = 0; j < i; j++)
		if (C.glyphs[j] && C.glyphs[j] != TOMBSTONE && C.glyphs[j]->glyph_key == C.glyphs[i]->glyph_key && C.glyphs[j]->font_key == C.glyphs[i]->font_key) ok = 0;
	}
    return ok;
}

void harness (void)
{
    unsigned char sel[HASH_SIZE]; uintptr_t keys[HASH_SIZE], q; int i, ng, nt;
    glyph_t *before[HASH_SIZE];
    pixman_list_init (&C.mru);
    for (i = 0; i < HASH_SIZE; i++)
    {
	VP_SYM_IDX (sel, i); VP_SYM_IDX (keys, i);
	VP_ASSUME (sel[i] < 3);
	pool[i].font_key = FONT; pool[i].glyph_key = (void *) keys[i]; pool[i].origin_x = i; pool[i].origin_y = -i;
	pool[i].image = &vp_token;
	pool[i].mru_link.next = pool[i].mru_link.prev = &pool[i].mru_link;
	C.glyphs[i] = sel[i] == 0 ? NULL : sel[i] == 1 ? TOMBSTONE : &pool[i];
    }
    /* observed hash values (named so that a counterexample trace carries the chosen hash function) */
    unsigned hv[HASH_SIZE], hq;
#ifdef VP_CBMC
    for (i = 0; i < HASH_SIZE; i++) hv[i] = hash (FONT, (void *) keys[i]);
#else
    for (i = 0; i < HASH_SIZE; i++) { VP_SYM_IDX (hv, i); vp_rk[vp_rn] = (size_t) FONT + keys[i]; vp_rh[vp_rn++] = hv[i]; }
#endif
#if STEP >= 3
    for (i = 0; i < HASH_SIZE; i++) if (sel[i] == 2) pixman_list_prepend (&C.mru, &pool[i].mru_link);
#endif
    census (&ng, &nt); C.n_glyphs = ng; C.n_tombstones = nt; C.freeze_count = 1;
    vp_img_live = ng;
    VP_ASSUME (ri_holds (1));
    VP_SYM (q);
#ifdef VP_CBMC
    hq = hash (FONT, (void *) q);
#else
    VP_SYM (hq); vp_rk[vp_rn] = (size_t) FONT + q; vp_rh[vp_rn++] = hq;
#endif
    int qslot = -1;
    for (i = 0; i < HASH_SIZE; i++) { before[i] = C.glyphs[i]; if (sel[i] == 2 && keys[i] == q) qslot = i; }
#if STEP == 0
    const glyph_t *g = pixman_glyph_cache_lookup (&C, FONT, (void *) q);
    VP_ASSERT (qslot >= 0 ? g == &pool[qslot] : g == NULL, "lookup returns the live entry or NULL");
    for (i = 0; i < HASH_SIZE; i++) VP_ASSERT (C.glyphs[i] == before[i], "lookup does not modify the table");
#elif STEP == 1
    VP_ASSUME (qslot < 0);			/* inserting a key that is already live is a caller error */
    int o; VP_SYM (o);
    static pixman_image_t src; src.type = BITS; src.bits.format = PIXMAN_a8; src.bits.width = 1; src.bits.height = 1;
    const glyph_t *g = pixman_glyph_cache_insert (&C, FONT, (void *) q, o, -o, &src);
    if (g)
    {
	int where = -1, changed = 0;
	for (i = 0; i < HASH_SIZE; i++) if (C.glyphs[i] != before[i]) { changed++; where = i; }
	VP_ASSERT (changed == 1 && C.glyphs[where] == g && (before[where] == NULL || before[where] == TOMBSTONE), "insert fills exactly one free slot");
	VP_ASSERT (g->font_key == FONT && g->glyph_key == (void *) q && g->origin_x == o && g->origin_y == -o && g->image == &vp_token, "entry carries keys, origin and the private image copy");
	VP_ASSERT (ri_holds (1), "insert preserves the representation invariant (incl. one empty slot)");
	VP_ASSERT (pixman_glyph_cache_lookup (&C, FONT, (void *) q) == g, "inserted entry is found");
	VP_ASSERT (vp_img_live == ng + 1, "one image copy created");
    }
    else
    {
	for (i = 0; i < HASH_SIZE; i++) VP_ASSERT (C.glyphs[i] == before[i], "refused insert leaves the table unchanged");
	VP_ASSERT (ng + nt >= HASH_SIZE - 2, "insert is refused only when the table is (nearly) full");
	VP_ASSERT (vp_img_live == ng, "refused insert leaks no image");
    }
#elif STEP == 3 || STEP == 4
#if STEP == 3
    clear_table (&C);
#else
    VP_ASSUME (nt > N_GLYPHS_HIGH_WATER);	/* the branch of thaw that dumps the whole table; the eviction loop needs remove (not decided) */
    pixman_glyph_cache_thaw (&C);
    VP_ASSERT (C.freeze_count == 0, "thaw drops the freeze count");
#endif
    for (i = 0; i < HASH_SIZE; i++) VP_ASSERT (C.glyphs[i] == NULL, "dumping the table empties every slot (tombstones included)");
    VP_ASSERT (C.n_glyphs == 0 && C.n_tombstones == 0, "counters equal the (empty) slot census after the dump");
    VP_ASSERT (vp_img_live == 0, "every live entry's image released exactly once");
    VP_ASSERT (C.mru.head == (pixman_link_t *) &C.mru && C.mru.tail == (pixman_link_t *) &C.mru, "MRU list empty after the dump");
    VP_ASSERT (pixman_glyph_cache_lookup (&C, FONT, (void *) q) == NULL, "lookups terminate and find nothing in the dumped table");
#else
#ifdef QSLOT
    VP_ASSUME (qslot == QSLOT);		/* case split over the slot that holds the key (-1: absent) */
#endif
    pixman_glyph_cache_remove (&C, FONT, (void *) q);
    if (qslot < 0)
	for (i = 0; i < HASH_SIZE; i++) VP_ASSERT (C.glyphs[i] == before[i], "removing an absent key changes nothing");
    else
    {
	VP_ASSERT (C.glyphs[qslot] == NULL || C.glyphs[qslot] == TOMBSTONE, "removed entry's slot is released");
	for (i = 0; i < HASH_SIZE; i++)
	    if (i != qslot && before[i] && before[i] != TOMBSTONE) VP_ASSERT (C.glyphs[i] == before[i], "other live entries stay in place");
	VP_ASSERT (vp_img_live == ng - 1, "the entry's image is released exactly once");
    }
    VP_ASSERT (ri_holds (1), "remove (with tombstone reclamation) preserves the representation invariant");
    VP_ASSERT (pixman_glyph_cache_lookup (&C, FONT, (void *) q) == NULL, "removed key is no longer found");
#endif
    VP_END ();
}
#ifdef VP_REPLAY
int main (void) { harness (); return 0; }
#endif
