/* C18: the real pixman_filter_create_separable_convolution on one kernel pair
 * (-DRK reconstruction, -DSK sampling; same pair on both axes), subsample bits
 * -DBX -DBY, scale symbolic in the 16.16 interval [SLO, SHI] (chosen so the
 * filter width is small).  Checks the announced length, the header, that every
 * write stays inside the block (CBMC bounds checks on the malloc'ed block), the
 * n_params rule of pixman_image_set_filter, and that every phase sums to 65536. */
#include "vp.h"
#include <config.h>
#include "pixman-filter.c"
#include "pixman-image.c"	/* the real pixman_image_set_filter and its n_params rule */

void harness (void)
{
    pixman_fixed_t sx, sy; int n = -1, i, j;
#if SLO == SHI
    sx = sy = SLO;	/* concrete scale: lets symbolic execution fold the floating-point kernel evaluation */
#else
    VP_SYM (sx); VP_SYM (sy);
    VP_ASSUME (sx >= SLO && sx <= SHI && sy >= SLO && sy <= SHI);
#endif
    pixman_fixed_t *p = pixman_filter_create_separable_convolution (&n, sx, sy, RK, RK, SK, SK, BX, BY);
    VP_ASSUME (p != NULL);
    int w = pixman_fixed_to_int (p[0]), h = pixman_fixed_to_int (p[1]);
    VP_ASSERT (p[0] == pixman_int_to_fixed (w) && p[1] == pixman_int_to_fixed (h) && w >= 0 && h >= 0, "header: integral non-negative width/height");
    VP_ASSERT (p[2] == pixman_int_to_fixed (BX) && p[3] == pixman_int_to_fixed (BY), "header: subsample bits");
    VP_ASSERT (n == 4 + w * (1 << BX) + h * (1 << BY), "announced length matches the header (pixman_image_set_filter's n_params rule)");
    VP_ASSERT (w <= WMAX && h <= WMAX, "width within the harness bound");
    {
	static pixman_image_t img;	/* zero-initialised common part: no previous filter parameters */
	img.type = SOLID;
	VP_ASSERT (pixman_image_set_filter (&img, PIXMAN_FILTER_SEPARABLE_CONVOLUTION, p, n), "pixman_image_set_filter accepts the block");
	VP_ASSERT (img.common.filter == PIXMAN_FILTER_SEPARABLE_CONVOLUTION && img.common.n_filter_params == n && img.common.dirty, "filter installed and image marked dirty");
    }
#ifndef NO_SUM
    for (i = 0; i < (1 << BX); i++)
    {
	long s = 0;
	for (j = 0; j < WMAX; j++) if (j < w) s += p[4 + i * w + j];
	VP_ASSERT (w == 0 || s == 65536, "x phase sums to exactly 1.0");
    }
    for (i = 0; i < (1 << BY); i++)
    {
	long s = 0;
	for (j = 0; j < WMAX; j++) if (j < h) s += p[4 + w * (1 << BX) + i * h + j];
	VP_ASSERT (h == 0 || s == 65536, "y phase sums to exactly 1.0");
    }
#endif
    VP_END ();
}
#ifdef VP_REPLAY
int main (void) { harness (); return 0; }
#endif
