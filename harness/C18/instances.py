from vp.core import Inst

LEVEL = "model_checking"
KERNELS = ["IMPULSE", "BOX", "LINEAR", "CUBIC", "GAUSSIAN", "LANCZOS2", "LANCZOS3", "LANCZOS3_STRETCHED"]
KW = {"IMPULSE": 0, "BOX": 1, "LINEAR": 2, "CUBIC": 4, "GAUSSIAN": 5, "LANCZOS2": 4, "LANCZOS3": 6, "LANCZOS3_STRETCHED": 8}
POLY = ("IMPULSE", "BOX", "LINEAR", "CUBIC")
import math


def instances(tier):
    L = []
    scales = (0x10000, 0x4000, 0x18000) if tier == "quick" else (0x10000, 0x4000, 0x18000, 0x8000, 0x2aaab)
    bits = ((1, 0),) if tier == "quick" else ((1, 0), (0, 2))
    for rk in KERNELS:
        for sk in KERNELS:
            for sc in scales:
                w = max(1, math.ceil(KW[rk] + (sc / 65536.0) * KW[sk]))
                if w > 14:
                    continue
                if sc != 0x10000 and not (rk in POLY and sk in POLY):
                    continue
                for bx, by in bits:
                    poly = rk in POLY and sk in POLY
                    if (bx, by) != (1, 0) and not poly:
                        continue        # 4-phase tables of the wide transcendental kernels exhaust memory
                    d = {"RK": "PIXMAN_KERNEL_" + rk, "SK": "PIXMAN_KERNEL_" + sk, "SLO": sc, "SHI": sc, "BX": bx, "BY": by, "WMAX": w}
                    if not poly:
                        d["NO_SUM"] = None
                    L.append(Inst("filter-%s-%s-s%x-b%d%d" % (rk, sk, sc, bx, by), "C18/filter.c", d, link=["pixman-utils.c"], unwind=16,
                                  checks=["--bounds-check", "--pointer-check"], models=("env_stubs.c", "libm_stubs.c"),
                                  timeout=900,
                                  desc={"what": "layout, header, n_params rule, in-block writes" + ("; every phase sums to 65536" if poly else " (transcendental kernel values arbitrary)")}))
    return L


TEXT = ("Bounded symbolic execution of the real pixman_filter_create_separable_convolution for all 8x8 kernel pairs at concrete scales and "
        "subsample depths: announced length == 4 + w*2^bx + h*2^by == what pixman_image_set_filter demands, header == tables, every write "
        "inside the malloc'ed block (CBMC bounds checks); for the polynomial kernels (IMPULSE, BOX, LINEAR, CUBIC; evaluated with IEEE "
        "doubles bit-precisely) every phase sums to exactly 65536; for GAUSSIAN/LANCZOS* the exp/sin values are arbitrary values of "
        "their range, so layout and memory safety hold for any kernel value.")
NOTE = ("Scale is concrete per instance (a symbolic scale makes the filter width and all floating-point taps symbolic; no verdict in 300 s "
        "even for BOX.BOX). The sum-to-one claim for transcendental kernels is outside reach (no libm model).")
RULE = ("C18 instance = kernel pair x scale x subsample bits. C18-specific non-triviality rule: inputs are concrete, so symbolic execution "
        "folds most obligations before the SAT solver sees them; an instance counts as non-trivial iff its witness twin reaches the end of "
        "the harness and more than 100 memory-safety/assertion obligations were generated and discharged for it.")


def NONTRIVIAL(r):
    return r.witness_inputs is not None and r.n_props > 100
BOUNDS = {"scales": "concrete menu (1.0, 0.25, 1.5, ...)", "subsample_bits": "0..2", "width": "<= 14 taps"}
OUTSIDE = ["all positive 16.16 scales (only the menu)", "subsample bits 3..8", "sum == 65536 for GAUSSIAN/LANCZOS kernels (libm)"]
ASSUMPTIONS = ["libm stubs: exp in [0,1] for non-positive argument, sin in [-1,1] (arbitrary values)", "allocation of the block succeeds"]
