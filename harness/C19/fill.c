/* C19: fast_path_fill of the real pixman-fast-path.c (-DBPP 1|8|16|32|4|24):
 * on a symbolic buffer of ROWS rows x STRIDE words, for every rectangle inside
 * the buffer: TRUE => exactly the addressed bits are set to the filler (low BPP
 * bits), every other bit unchanged; FALSE => nothing changed.                 */
#include "vp.h"
#include <config.h>
#include "pixman-fast-path.c"

#ifndef STRIDE
#define STRIDE 2
#endif
#define ROWS 2
#define ROWBITS (STRIDE * 32)

void harness (void)
{
    uint32_t buf[ROWS * STRIDE], buf0[ROWS * STRIDE], filler;
    int x, y, w, h, i, r, b;
    for (i = 0; i < ROWS * STRIDE; i++) { VP_SYM_IDX (buf0, i); buf[i] = buf0[i]; }
    VP_SYM (x); VP_SYM (y); VP_SYM (w); VP_SYM (h); VP_SYM (filler);
    VP_ASSUME (x >= 0 && w >= 0 && y >= 0 && h >= 0 && y <= ROWS && h <= ROWS && y + h <= ROWS && (x + w) * BPP <= ROWBITS && w <= ROWBITS && x <= ROWBITS);
    pixman_bool_t ok = fast_path_fill (0, buf, STRIDE, BPP, x, y, w, h, filler);
    if (!ok)
    {
	for (i = 0; i < ROWS * STRIDE; i++) VP_ASSERT (buf[i] == buf0[i], "fill reporting failure changed nothing");
	VP_ASSERT (BPP != 1 && BPP != 8 && BPP != 16 && BPP != 32, "fill supports 1, 8, 16, 32 bpp");
    }
    else
    {
	/* check one symbolic bit position (row r, bit b of the row): covers every bit */
	VP_SYM (r); VP_SYM (b);
	VP_ASSUME (r >= 0 && r < ROWS && b >= 0 && b < ROWBITS);
	uint32_t got = (buf[r * STRIDE + b / 32] >> (b % 32)) & 1, old = (buf0[r * STRIDE + b / 32] >> (b % 32)) & 1;
	int px = b / BPP, inrect = r >= y && r < y + h && px >= x && px < x + w;
	if (inrect)
	    VP_ASSERT (got == ((filler >> (b % BPP)) & 1), "bits inside the rectangle take the filler value");
	else
	    VP_ASSERT (got == old, "bits outside the rectangle are unchanged");
    }
    VP_END ();
}
#ifdef VP_REPLAY
int main (void) { harness (); return 0; }
#endif
