/* C19/C03: pixman_image_fill_boxes (one box, concrete per instance; symbolic 16-bit colour and destination)
 * against (a) compositing a solid image of that colour over the box with the
 * real pixman_image_composite32 on a copy of the destination, and (b) the frame
 * rule: every word outside box /\ image bounds - including row padding - is
 * unchanged.  -DOP operator, -DFMT destination format, -DW -DH size.          */
#include "api_common.h"
#ifndef W
#define W 3
#endif
#ifndef H
#define H 2
#endif
#define BPPF ((int) PIXMAN_FORMAT_BPP (FMT))
#define SW ((W * BPPF + 31) / 32 + 1)		/* words per row incl. one padding word */

void harness (void)
{
    uint32_t a[H * SW + 2], b[H * SW + 2], d0[H * SW + 2];
    pixman_color_t col; pixman_box32_t box; int i;
    for (i = 0; i < H * SW + 2; i++) { VP_SYM_IDX (d0, i); a[i] = b[i] = d0[i]; }
    VP_SYM (col.red); VP_SYM (col.green); VP_SYM (col.blue);
    col.alpha = ALPHA;	/* concrete per instance: the colour's opacity selects code paths (image flags), which must stay concrete */
    /* geometry is concrete per instance (-DBX1 ...): symbolic geometry drags the region sweep into symbolic execution */
    box.x1 = BX1; box.y1 = BY1; box.x2 = BX2; box.y2 = BY2;
    /* a[0] and a[last] are guard words before/after the pixel storage */
    pixman_image_t *da = vp_img (FMT, W, H, a + 1, SW), *db = vp_img (FMT, W, H, b + 1, SW);
    int cx1 = -1000, cy1 = -1000, cx2 = 1000, cy2 = 1000;
#ifdef HAVE_DCLIP
    /* destination clip (single box, may reach beyond the image) on both destinations */
    { pixman_region32_t c; pixman_region32_init_rect (&c, CX1, CY1, CX2 - CX1, CY2 - CY1);
      VP_ASSUME (pixman_image_set_clip_region32 (da, &c)); VP_ASSUME (pixman_image_set_clip_region32 (db, &c));
      cx1 = CX1; cy1 = CY1; cx2 = CX2; cy2 = CY2; }
#endif
    pixman_bool_t ok = pixman_image_fill_boxes (OP, da, &col, 1, &box);
    VP_ASSERT (ok, "fill_boxes reports success");
    pixman_image_t *solid = pixman_image_create_solid_fill (&col);
    VP_ASSUME (solid != NULL);
    pixman_image_composite32 (OP, solid, NULL, db, 0, 0, 0, 0, box.x1, box.y1, box.x2 - box.x1, box.y2 - box.y1);
    for (i = 0; i < H * SW + 2; i++)
	VP_ASSERT (a[i] == b[i], "fill_boxes leaves exactly what compositing a solid image over the box leaves");
    /* frame rule against the oracle rectangle */
    VP_ASSERT (a[0] == d0[0] && a[H * SW + 1] == d0[H * SW + 1], "no write before or after the pixel storage");
    {
	int r, bit; VP_SYM (r); VP_SYM (bit);
	VP_ASSUME (r >= 0 && r < H && bit >= 0 && bit < SW * 32);
	int px = bit / BPPF, inside = bit < W * BPPF && px >= box.x1 && px < box.x2 && r >= box.y1 && r < box.y2 && px >= cx1 && px < cx2 && r >= cy1 && r < cy2;
	uint32_t nw = a[1 + r * SW + bit / 32], ow = d0[1 + r * SW + bit / 32];
	if (!inside) VP_ASSERT ((((nw ^ ow) >> (bit % 32)) & 1) == 0, "bits outside box /\\ image bounds (neighbours, padding) are unchanged");
    }
    VP_END ();
}
#ifdef VP_REPLAY
int main (void) { harness (); return 0; }
#endif
