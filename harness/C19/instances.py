from vp.core import Inst, API_UNWINDSET

LEVEL = "model_checking"
BOXES = {"inside": (1, 0, 3, 2), "whole": (0, 0, 3, 2), "right-bottom-out": (1, 1, 5, 4), "left-top-out": (-1, -1, 2, 1),
         "outside": (4, 0, 6, 2), "empty": (1, 1, 1, 2), "column": (2, -2, 3, 5)}
OPS = {"SRC": 1, "OVER": 3, "CLEAR": 0, "ADD": 12, "IN_REVERSE": 6, "XOR": 11}


def instances(tier):
    L = []
    for bpp in (1, 8, 16, 32, 4, 24):
        L.append(Inst("fast_path_fill-%dbpp" % bpp, "C19/fill.c", {"BPP": bpp}, link=[], unwind=11, timeout=900, checks=["--bounds-check", "--pointer-check"],
                      desc={"what": "fast_path_fill on a symbolic 2x2-word buffer, EVERY rectangle (x, y, w, h symbolic): exactly the rectangle's bits set, or FALSE and nothing changed"}))
    EX = ("pixman-sse2.c", "pixman-ssse3.c", "pixman-mmx.c")
    blts = [("inplace-32bpp", {"BLT": 1, "PUBLIC": None, "INPLACE": None, "BPPV": 32, "ROWS": 4, "STRIDEW": 4, "SSTRIDE": 8, "X": 0, "Y": 0, "SX": 0, "SY": 0, "WD": 4, "HT": 2}),
            ("32bpp", {"BLT": 1, "PUBLIC": None, "BPPV": 32, "ROWS": 2, "STRIDEW": 6, "X": 1, "Y": 0, "SX": 2, "SY": 0, "WD": 4, "HT": 2})]
    if tier == "thorough":
        blts += [("inplace-16bpp", {"BLT": 1, "PUBLIC": None, "INPLACE": None, "BPPV": 16, "ROWS": 4, "STRIDEW": 4, "SSTRIDE": 8, "X": 0, "Y": 0, "SX": 0, "SY": 0, "WD": 8, "HT": 2}),
                 ("8bpp-refused", {"BLT": 1, "PUBLIC": None, "BPPV": 8, "ROWS": 2, "STRIDEW": 4, "X": 0, "Y": 0, "SX": 0, "SY": 0, "WD": 4, "HT": 1})]
    for nm, d in blts:
        L.append(Inst("pixman_blt-" + nm, "C02/fillblt.c", d, simd=True, exclude=EX, models=("env_stubs.c", "x86_builtins.c"), unwind=70, objbits=12,
                      timeout=900, checks=["--bounds-check", "--pointer-check"],
                      desc={"what": "public pixman_blt over a chain with the real sse2_blt (x86 builtins through models): exactly the rectangle copied bit for bit, nothing else changed, incl. same-buffer source/destination with different strides; contents symbolic, geometry concrete"}))
    combos = []
    if True:   # the larger thorough matrix could not be validated in the available time: both tiers run this set
        combos = [("SRC", "a8r8g8b8", "0xffff", "right-bottom-out"), ("SRC", "a8", "0x8000", "left-top-out"), ("OVER", "a8r8g8b8", "0xffff", "column"),
                  ("OVER", "a8r8g8b8", "0x8000", "inside"), ("CLEAR", "a8r8g8b8", "0x8000", "right-bottom-out"), ("SRC", "r5g6b5", "0xffff", "inside"), ("SRC", "a1", "0xffff", "inside"),
                  ("ADD", "a8", "0x8000", "whole"), ("SRC", "x8b8g8r8", "0x8000", "outside"), ("SRC", "b8g8r8a8", "0x8000", "inside"), ("SRC", "a4", "0x8000", "left-top-out")]
    else:
        combos = [("SRC", "a8r8g8b8", "0xffff", "right-bottom-out"), ("SRC", "a8", "0x8000", "left-top-out"), ("OVER", "a8r8g8b8", "0xffff", "column"),
                  ("OVER", "a8r8g8b8", "0x8000", "inside"), ("CLEAR", "a8r8g8b8", "0x8000", "right-bottom-out"), ("SRC", "r5g6b5", "0xffff", "inside"),
                  ("SRC", "a1", "0xffff", "inside"), ("ADD", "a8", "0x8000", "whole"), ("SRC", "x8b8g8r8", "0x8000", "outside"),
                  ("SRC", "b8g8r8a8", "0x8000", "inside"), ("SRC", "a4", "0x8000", "left-top-out")]
        for op in ("SRC", "OVER", "XOR", "IN_REVERSE"):
            for fmt in ("a8r8g8b8", "x8b8g8r8", "b8g8r8a8", "a8", "a1", "a4"):
                for al in ("0xffff", "0x8000", "0"):
                    for bx in ("right-bottom-out", "left-top-out", "empty"):
                        if (len(op) * 7 + len(fmt) * 3 + int(al, 16) + len(bx)) % 3 == 0 and (op, fmt, al, bx) not in combos:
                            combos.append((op, fmt, al, bx))
    combos = [c + (None,) for c in combos]
    # destination clip reaching beyond the image; near-opaque colour on a wide destination
    combos += [("SRC", "a8r8g8b8", "0x8000", "right-bottom-out", (1, 0, 6, 5)), ("SRC", "a1", "0xffff", "column", (0, 1, 9, 2))]
    # ("OVER", "a2r10g10b10", "0xff00", "inside"): near-opaque colour on a wide destination goes through the float pipeline - out of memory (16 GB) after 730 s, not registered
    for op, fmt, al, bx, clip in combos:
        b = BOXES[bx]
        dd = {"OP": OPS[op], "FMT": "PIXMAN_" + fmt, "ALPHA": al, "BX1": b[0], "BY1": b[1], "BX2": b[2], "BY2": b[3]}
        if clip:
            dd.update({"HAVE_DCLIP": None, "CX1": clip[0], "CY1": clip[1], "CX2": clip[2], "CY2": clip[3]})
        L.append(Inst("fill_boxes-%s-%s-a%s-%s%s" % (op, fmt, al[2:] or "0", bx, "-clip" if clip else ""), "C19/fillboxes.c", dd,
                      unwind=12, unwindset=API_UNWINDSET, objbits=12, timeout=900,
                      desc={"what": "pixman_image_fill_boxes vs compositing a solid over the box (both real code) + frame rule; colour (r,g,b) and destination symbolic; box, alpha, operator, format concrete", "box": b}))
    return L


TEXT = ("Bounded model checking: fast_path_fill sets exactly the addressed rectangle for EVERY rectangle inside a symbolic buffer (1/8/16/32 bpp) "
        "or reports failure having changed nothing (4/24 bpp); pixman_image_fill_boxes (incl. the direct-fill shortcut and its operator "
        "reduction) leaves exactly what pixman_image_composite32 of a solid image over the box leaves, and changes no bit outside "
        "box /\\\\ image bounds (guard words, row padding, neighbouring sub-byte pixels), for symbolic colour and destination contents; the public pixman_blt over a chain holding the real sse2_blt (x86 builtins through "
        "validated models) copies exactly the rectangle bit for bit and changes nothing else, incl. source == destination buffer with different strides.")
NOTE = ("API-level instances need concrete geometry, colour alpha, operator and format (they select code paths through flags and function "
        "tables; symbolic values there make symbolic execution explore every composite routine). sse2_fill/sse2_blt routines themselves are compared under C02; mmx is not encoded; "
        "pixman_blt has no C implementation, so its instances install the SSE2 chain as global_implementation (CPU detection is not encoded).")
# (added) public pixman_blt over a chain with the real sse2_blt, incl. same-buffer copies with different strides
RULE = "C19 instance = fill unit per bpp | fill_boxes (operator, format, alpha class, box) | pixman_blt geometry."
BOUNDS = {"fill": "buffer 2 rows x 2 words, all rectangles", "fill_boxes": "3x2 destination with padding, box from a menu of 7, 1 box per call"}
OUTSIDE = ["wide (10-bit/float) destinations: the float pipeline does not fit (measured: out of memory at 16 GB)", "sse2_fill / sse2_blt / mmx_fill / mmx_blt", "multi-box calls (region sweep not encodable)", "clip regions on the destination", "fill_rectangles with more than 6 rectangles"]
ASSUMPTIONS = ["allocation succeeds"]


def PRECHECK(ctx):
    """pixman_blt instances go through models of the x86 builtins: validate the models against the CPU first (as C02 does)."""
    import os, subprocess
    from vp import core
    exe = os.path.join(ctx.work, "validate_builtins")
    r = subprocess.run(["gcc", "-O1", "-msse2", "-w", os.path.join(core.MODELS, "validate_builtins.c"), "-I" + core.MODELS, "-o", exe], capture_output=True, text=True)
    if r.returncode != 0:
        return False, "validate_builtins build failed: " + r.stderr[-500:]
    r = subprocess.run([exe, str(ctx.seed or 1)], capture_output=True, text=True)
    return r.returncode == 0, r.stdout.strip()[-300:]
