from vp.core import Inst, API_UNWINDSET

LEVEL = "model_checking"
SCRIPTS = {0: "ref-unref-own-pixels", 1: "caller-pixels-kept", 2: "alpha-map-kept-alive", 3: "alpha-map-detach", 4: "alpha-map-chains-refused",
           5: "alpha-map-self-refused", 6: "setters-replace-owned-buffers", 7: "solid-and-gradient", 8: "alpha-map-on-solid-owner", 9: "alpha-map-reattach-same", 11: "multi-rect-clip-storage"}


def instances(tier):
    L = []
    for k, n in SCRIPTS.items():
        L.append(Inst("life-" + n, "C20/life.c", {"SCRIPT": k}, unwind=12, unwindset=API_UNWINDSET + ("memcmp.0:40",), objbits=12, timeout=900,
                      checks=["--pointer-check", "--bounds-check", "--memory-leak-check"],
                      desc={"what": "concrete history through the real API under CBMC's heap model: unref result and destroy-callback count vs reference-count model; no double free, use after free or leak"}))
    return L


TEXT = ("Bounded symbolic execution of 11 concrete image-lifetime histories through the real API under CBMC's heap model: every free is tracked, "
        "so double free, use after free and (with --memory-leak-check) leaks are solver obligations; the harness keeps a reference-count model "
        "and asserts that unref returns TRUE exactly when the model count reaches zero, that the destroy callback has then run exactly once "
        "and never otherwise, that an attached alpha map outlives its own last external reference, that detaching returns the reference, and "
        "that alpha-map chains - including self-attachment - are refused.")
NOTE = ("Histories are concrete scripts (symbolic histories over heap objects do not get through symbolic execution); only transform values, "
        "alpha origins and pixels are symbolic. Glyph-cache insert/remove is not part of these scripts.")
RULE = "C20 instance = one concrete history (script)."
BOUNDS = {"histories": "11 scripts of 3-8 calls over up to 3 images"}
OUTSIDE = ["arbitrary (symbolic) call histories", "glyph cache entries (script 10 exists in the harness but does not finish in 1500 s: composite32 inside insert + table loops)", "longer histories"]
ASSUMPTIONS = ["allocation succeeds (failure is C15)"]
