/* C20: image lifetime through the real library with CBMC's heap model (every
 * free is tracked: double free, use after free and - with --memory-leak-check -
 * leaks are proof obligations).  The history is concrete per instance
 * (-DSCRIPT n); transform values, origins and pixel data are symbolic.
 * A model of the reference counts is kept by the harness: unref returns TRUE
 * exactly when the model count reaches zero, and the destroy callback of that
 * image has then run exactly once (and never otherwise).                      */
#include "api_common.h"
static int destroyed[4];
static void on_destroy (pixman_image_t *im, void *data) { destroyed[(int) (intptr_t) data]++; }
static pixman_image_t *mk (int id, uint32_t *buf)
{
    pixman_image_t *im = pixman_image_create_bits (PIXMAN_a8r8g8b8, 2, 1, buf, 8);
    VP_ASSUME (im != NULL);
    pixman_image_set_destroy_function (im, on_destroy, (void *) (intptr_t) id);
    return im;
}

void harness (void)
{
    uint32_t ext[2]; pixman_transform_t t; int i, j, ox, oy;
    for (i = 0; i < 3; i++) for (j = 0; j < 3; j++) VP_SYM_IDX2 (t.matrix, i, j);
    VP_SYM (ox); VP_SYM (oy); VP_ASSUME (ox >= -100 && ox <= 100 && oy >= -100 && oy <= 100);
    ext[0] = ext[1] = 0;
#if SCRIPT == 0		/* ref / unref on an image that owns its pixels */
    pixman_image_t *a = mk (0, NULL);
    VP_ASSERT (pixman_image_ref (a) == a, "ref returns the image");
    VP_ASSERT (pixman_image_unref (a) == FALSE && destroyed[0] == 0, "unref with a reference left: FALSE, not destroyed");
    a->bits.bits[0] = 1;	/* still usable */
    VP_ASSERT (pixman_image_unref (a) == TRUE && destroyed[0] == 1, "last unref: TRUE, destroy callback ran exactly once");
#elif SCRIPT == 1	/* caller-owned pixels are not released */
    pixman_image_t *a = mk (0, ext);
    VP_ASSERT (pixman_image_unref (a) == TRUE && destroyed[0] == 1, "last unref: TRUE");
    ext[0] = 5; VP_ASSERT (ext[0] == 5, "caller's buffer still valid");
#elif SCRIPT == 2	/* an attached alpha map stays alive until the owner dies */
    pixman_image_t *a = mk (0, NULL), *m = mk (1, NULL);
    pixman_image_set_alpha_map (a, m, ox, oy);
    VP_ASSERT (a->common.alpha_map == &m->bits, "alpha map attached");
    VP_ASSERT (pixman_image_unref (m) == FALSE && destroyed[1] == 0, "map kept alive by the attachment");
    m->bits.bits[0] = 7;
    VP_ASSERT (pixman_image_unref (a) == TRUE && destroyed[0] == 1 && destroyed[1] == 1, "owner's death releases the map exactly once");
#elif SCRIPT == 3	/* detach gives the reference back */
    pixman_image_t *a = mk (0, NULL), *m = mk (1, NULL);
    pixman_image_set_alpha_map (a, m, ox, oy);
    pixman_image_set_alpha_map (a, NULL, 0, 0);
    VP_ASSERT (a->common.alpha_map == NULL && m->common.alpha_count == 0, "detached");
    VP_ASSERT (pixman_image_unref (m) == TRUE && destroyed[1] == 1, "map released by its last holder");
    VP_ASSERT (pixman_image_unref (a) == TRUE && destroyed[0] == 1, "owner released");
#elif SCRIPT == 4	/* chains are refused, in both orders */
    pixman_image_t *a = mk (0, NULL), *m = mk (1, NULL), *n = mk (2, NULL);
    pixman_image_set_alpha_map (m, n, 0, 0);		/* m has a map ... */
    pixman_image_set_alpha_map (a, m, ox, oy);		/* ... so it cannot be one */
    VP_ASSERT (a->common.alpha_map == NULL && m->common.ref_count == 1, "image with a map of its own is refused as a map");
    pixman_image_set_alpha_map (n, a, ox, oy);		/* n is in use as a map, so it cannot get one */
    VP_ASSERT (n->common.alpha_map == NULL && a->common.ref_count == 1, "image in use as a map cannot get a map");
    VP_ASSERT (pixman_image_unref (a) == TRUE && pixman_image_unref (n) == FALSE && pixman_image_unref (m) == TRUE, "release order");
    VP_ASSERT (destroyed[0] == 1 && destroyed[1] == 1 && destroyed[2] == 1, "everything destroyed exactly once");
#elif SCRIPT == 5	/* an image is not its own alpha map (a chain of length one) */
    pixman_image_t *a = mk (0, NULL);
    pixman_image_set_alpha_map (a, a, ox, oy);
    VP_ASSERT (a->common.alpha_map == NULL && a->common.ref_count == 1, "self attachment is refused");
    VP_ASSERT (pixman_image_unref (a) == TRUE && destroyed[0] == 1, "released");
#elif SCRIPT == 6	/* setters replace owned buffers without leaking */
    pixman_image_t *a = mk (0, NULL);
    pixman_fixed_t params[3] = { pixman_int_to_fixed (1), pixman_int_to_fixed (1), 65536 };
    pixman_region32_t r; pixman_region32_init_rect (&r, 0, 0, 1, 1);
    VP_ASSUME (pixman_image_set_transform (a, &t));
    t.matrix[0][0] ^= 1;
    VP_ASSUME (pixman_image_set_transform (a, &t));
    VP_ASSUME (pixman_image_set_filter (a, PIXMAN_FILTER_CONVOLUTION, params, 3));
    VP_ASSUME (pixman_image_set_filter (a, PIXMAN_FILTER_CONVOLUTION, params, 3));
    VP_ASSUME (pixman_image_set_filter (a, PIXMAN_FILTER_NEAREST, NULL, 0));
    VP_ASSUME (pixman_image_set_clip_region32 (a, &r));
    VP_ASSUME (pixman_image_set_transform (a, NULL));
    VP_ASSERT (pixman_image_unref (a) == TRUE && destroyed[0] == 1, "released");
#elif SCRIPT == 11	/* a multi-rectangle clip owns heap storage: released exactly once whether the clip is still set, was reset, or was replaced */
    pixman_image_t *a = mk (0, NULL);
    pixman_region32_t r; int which; VP_SYM (which);
    pixman_region32_data_t *d = malloc (sizeof (pixman_region32_data_t) + 2 * sizeof (pixman_box32_t)); VP_ASSUME (d != NULL);
    pixman_box32_t *bx = (pixman_box32_t *) (d + 1);
    d->size = 2; d->numRects = 2;
    bx[0].x1 = 0; bx[0].y1 = 0; bx[0].x2 = 1; bx[0].y2 = 1; bx[1].x1 = 1; bx[1].y1 = 1; bx[1].x2 = 2; bx[1].y2 = 2;
    r.extents.x1 = 0; r.extents.y1 = 0; r.extents.x2 = 2; r.extents.y2 = 2; r.data = d;
    VP_ASSUME (pixman_image_set_clip_region32 (a, &r));
    VP_ASSERT (a->common.have_clip_region && a->common.clip_region.data != d && a->common.clip_region.data->numRects == 2, "the image holds its own copy of the clip rectangles");
    if (which == 1)
	VP_ASSUME (pixman_image_set_clip_region32 (a, NULL));		/* reset: storage may stay until destruction, but must go then */
    else if (which == 2)
	VP_ASSUME (pixman_image_set_clip_region32 (a, &r));		/* replaced by another multi-rectangle clip */
    else if (which == 3)
    {	pixman_region32_t one; pixman_region32_init_rect (&one, 0, 0, 1, 1);
	VP_ASSUME (pixman_image_set_clip_region32 (a, &one)); }		/* replaced by a single rectangle */
    pixman_region32_fini (&r);
    VP_ASSERT (pixman_image_unref (a) == TRUE && destroyed[0] == 1, "released");
#elif SCRIPT == 7	/* solid and gradient images */
    pixman_color_t c = { 1, 2, 3, 4 };
    pixman_gradient_stop_t st[2] = { { 0, { 0, 0, 0, 0 } }, { 65536, { 1, 1, 1, 1 } } };
    pixman_point_fixed_t p1 = { 0, 0 }, p2 = { 65536, 0 };
    pixman_image_t *s = pixman_image_create_solid_fill (&c), *g = pixman_image_create_linear_gradient (&p1, &p2, st, 2);
    VP_ASSUME (s && g);
    pixman_image_ref (g);
    VP_ASSERT (pixman_image_unref (g) == FALSE && pixman_image_unref (g) == TRUE && pixman_image_unref (s) == TRUE, "solid / gradient released by the last unref");
#elif SCRIPT == 8	/* a non-BITS owner releases its alpha map too */
    pixman_color_t c = { 1, 2, 3, 4 };
    pixman_image_t *s = pixman_image_create_solid_fill (&c), *m = mk (1, NULL);
    VP_ASSUME (s != NULL);
    pixman_image_set_alpha_map (s, m, ox, oy);
    VP_ASSERT (pixman_image_unref (m) == FALSE && destroyed[1] == 0, "map kept alive by the solid owner");
    VP_ASSERT (pixman_image_unref (s) == TRUE && destroyed[1] == 1, "the solid owner's death releases the map exactly once");
#elif SCRIPT == 9	/* re-attaching the same map (new origin) while the owner holds the only reference */
    pixman_image_t *a = mk (0, NULL), *m = mk (1, NULL);
    pixman_image_set_alpha_map (a, m, 0, 0);
    VP_ASSERT (pixman_image_unref (m) == FALSE, "caller drops its reference; the attachment keeps the map");
    pixman_image_set_alpha_map (a, m, ox, oy);
    VP_ASSERT (destroyed[1] == 0 && a->common.alpha_map == &m->bits && m->common.ref_count == 1 && m->common.alpha_count == 1, "re-attaching the same map neither frees nor leaks it");
    m->bits.bits[0] = 3;
    VP_ASSERT (a->common.alpha_origin_x == ox && a->common.alpha_origin_y == oy, "new origin in force");
    VP_ASSERT (pixman_image_unref (a) == TRUE && destroyed[0] == 1 && destroyed[1] == 1, "released once");
#elif SCRIPT == 10	/* glyph cache entry: private copy of the image, released by remove / destroy (small table via the verification hook) */
    pixman_glyph_cache_t *gc = pixman_glyph_cache_create (); VP_ASSUME (gc != NULL);
    pixman_image_t *g = mk (0, NULL); g->bits.bits[0] = 0x80402010;
    pixman_glyph_cache_freeze (gc);
    const void *e = pixman_glyph_cache_insert (gc, (void *) 1, (void *) 2, ox, oy, g);
    VP_ASSUME (e != NULL);
    VP_ASSERT (pixman_glyph_cache_lookup (gc, (void *) 1, (void *) 2) == e, "inserted glyph is found");
    g->bits.bits[0] = 0;		/* later writes to the argument do not reach the cached copy */
    VP_ASSERT (pixman_image_unref (g) == TRUE && destroyed[0] == 1, "the cache holds a copy, not a reference on the argument");
    pixman_glyph_cache_remove (gc, (void *) 1, (void *) 2);
    VP_ASSERT (pixman_glyph_cache_lookup (gc, (void *) 1, (void *) 2) == NULL, "removed");
    { pixman_image_t *g2 = mk (1, NULL); e = pixman_glyph_cache_insert (gc, (void *) 1, (void *) 3, 0, 0, g2); VP_ASSERT (pixman_image_unref (g2) == TRUE, "second argument image released by its owner"); }
    pixman_glyph_cache_thaw (gc);
    pixman_glyph_cache_destroy (gc);	/* frees the remaining entry and the table */
    /* image 1 was only lent to insert: still ours */
#endif
    VP_END ();
}
#ifdef VP_REPLAY
int main (void) { harness (); return 0; }
#endif
