/* Helpers shared by the API-level harnesses (whole library linked). */
#ifndef API_COMMON_H
#define API_COMMON_H
#include "vp.h"
#include <config.h>
#include "pixman-private.h"

/* image over caller-owned storage; allocation is not the subject unless the instance says so */
static pixman_image_t *vp_img (pixman_format_code_t f, int w, int h, uint32_t *bits, int stride_words)
{
    pixman_image_t *im = pixman_image_create_bits (f, w, h, bits, stride_words * 4);
    VP_ASSUME (im != NULL);
    return im;
}
#endif
