/* Common harness header: symbolic inputs under CBMC (-DVP_CBMC), recorded
 * inputs under native replay (-DVP_REPLAY).  Every symbolic input is an
 * assignment to a *named lvalue* so that the counterexample trace can be
 * mapped back by name. */
#ifndef VP_H
#define VP_H
#include <stdint.h>
#include <stddef.h>

#ifdef VP_CBMC
#define VP_ASSUME(c) __CPROVER_assume(c)
#ifdef VP_WITNESS
#define VP_ASSERT(c, tag) ((void) 0)
#else
#define VP_ASSERT(c, tag) __CPROVER_assert((c), "VP:" tag)
#endif
#define VP_SYM(lv) do { __typeof__(lv) vp_nd_; (lv) = vp_nd_; } while (0)
#define VP_SYM_IDX(arr, i) do { __typeof__((arr)[0]) vp_nd_; (arr)[i] = vp_nd_; } while (0)
#define VP_SYM_IDX2(arr, i, j) do { __typeof__((arr)[0][0]) vp_nd_; (arr)[i][j] = vp_nd_; } while (0)
#define VP_SYM_IDXF(arr, i, f) do { __typeof__((arr)[0].f) vp_nd_; (arr)[i].f = vp_nd_; } while (0)
#ifdef VP_WITNESS
#define VP_END() __CPROVER_assert(0, "VP_WITNESS")
#else
#define VP_END() ((void)0)
#endif
#define VP_NOTE(...) ((void)0)
#else /* native replay */
#include <stdio.h>
#include <stdlib.h>
#include <string.h>
long long vp_get (const char *key);
#define VP_ASSUME(c) do { if (!(c)) { fprintf (stderr, "VP_ASSUME_FAILED %s\n", #c); exit (77); } } while (0)
#define VP_ASSERT(c, tag) do { if (!(c)) { fprintf (stderr, "VP_ASSERT_FAILED %s [%s] %s:%d\n", tag, #c, __FILE__, __LINE__); exit (99); } } while (0)
#define VP_SYM(lv) ((lv) = (__typeof__(lv)) vp_get (#lv))
#define VP_SYM_IDX(arr, i) do { char vp_k_[128]; snprintf (vp_k_, sizeof vp_k_, "%s[%d]", #arr, (int)(i)); (arr)[i] = (__typeof__((arr)[0])) vp_get (vp_k_); } while (0)
#define VP_SYM_IDX2(arr, i, j) do { char vp_k_[128]; snprintf (vp_k_, sizeof vp_k_, "%s[%d][%d]", #arr, (int)(i), (int)(j)); (arr)[i][j] = (__typeof__((arr)[0][0])) vp_get (vp_k_); } while (0)
#define VP_SYM_IDXF(arr, i, f) do { char vp_k_[128]; snprintf (vp_k_, sizeof vp_k_, "%s[%d].%s", #arr, (int)(i), #f); (arr)[i].f = (__typeof__((arr)[0].f)) vp_get (vp_k_); } while (0)
#define VP_END() do { fprintf (stderr, "VP_REPLAY_END\n"); } while (0)
#define VP_NOTE(...) fprintf (stderr, __VA_ARGS__)
#endif

/* boxes (x1,y1,x2,y2) field-wise, so that traces map back by name */
#define VP_SYM_BOX(b) do { VP_SYM ((b).x1); VP_SYM ((b).y1); VP_SYM ((b).x2); VP_SYM ((b).y2); } while (0)
#define VP_SYM_BOX_IDX(arr, i) do { VP_SYM_IDXF (arr, i, x1); VP_SYM_IDXF (arr, i, y1); VP_SYM_IDXF (arr, i, x2); VP_SYM_IDXF (arr, i, y2); } while (0)

#endif
