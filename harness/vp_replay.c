/* Native replay support: reads "key value" lines from the file named by
 * $VP_REPLAY_FILE; unknown keys read as 0 (inputs the solver left free). */
#include <stdio.h>
#include <stdlib.h>
#include <string.h>
static struct { char k[128]; long long v; } tab[4096];
static int ntab = -1;
static void load (void)
{
    const char *fn = getenv ("VP_REPLAY_FILE");
    ntab = 0;
    if (!fn) return;
    FILE *f = fopen (fn, "r");
    if (!f) { fprintf (stderr, "cannot open replay file %s\n", fn); exit (2); }
    char line[512], k[128]; long long v;
    while (ntab < 4096 && fgets (line, sizeof line, f))
    {
	if (line[0] == '#') continue;
	if (sscanf (line, "%127s %lld", k, &v) == 2)
	{ strcpy (tab[ntab].k, k); tab[ntab].v = v; ntab++; }
    }
    fclose (f);
}
long long vp_get (const char *key)
{
    if (ntab < 0) load ();
    char norm[128]; int j = 0;
    for (const char *p = key; *p && j < 127; p++) if (*p != ' ' && *p != '(' && *p != ')') norm[j++] = *p;
    norm[j] = 0;
    for (int i = 0; i < ntab; i++) if (!strcmp (tab[i].k, norm)) return tab[i].v;
    return 0;
}
