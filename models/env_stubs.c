/* Environment stubs for the CBMC build (part of every claim):
 *  - getenv: returns NULL unless the harness sets vp_env_string (PIXMAN_DISABLE
 *    is the only variable pixman reads).  CBMC's default model returns an
 *    arbitrary string, which makes implementation selection symbolic.
 *  - _pixman_log_error's fprintf and other stdio output: CBMC built-ins (no-ops). */
#include <stddef.h>
const char *vp_env_string = NULL;
char *getenv (const char *name)
{
    (void) name;
    return (char *) vp_env_string;
}
