/* libm stubs for the CBMC build (C13/C18): transcendental functions return an
 * ARBITRARY value of their mathematical range - every claim that uses them
 * holds for any such value, i.e. is stronger than needed.  Listed in evidence. */
double nondet_double (void);
float nondet_float (void);
double exp (double x)  { double r = nondet_double (); __CPROVER_assume (r >= 0.0 && (x > 0.0 || r <= 1.0) && r == r && r < 1e300); return r; }
double sin (double x)  { double r = nondet_double (); __CPROVER_assume (r >= -1.0 && r <= 1.0); return r; }
double cos (double x)  { double r = nondet_double (); __CPROVER_assume (r >= -1.0 && r <= 1.0); return r; }
double atan2 (double y, double x) { double r = nondet_double (); __CPROVER_assume (r >= -3.1415926535897936 && r <= 3.1415926535897936); return r; }
double pow (double x, double y) { double r = nondet_double (); return r; }
double sqrt (double x) { double r = nondet_double (); __CPROVER_assume (r >= 0.0 && r < 1e150 && (x <= 0.0 || r > 1e-150)); return r; }
float sqrtf (float x) { float r = nondet_float (); __CPROVER_assume (r >= 0.0f && r < 1e18f && (x <= 0.0f || r > 1e-18f)); return r; }
