/* Native validation of models/x86_builtins.c against the real SSE2 instructions. */
#define VPM(name) vpm_##name
#include "x86_builtins.c"
#include <emmintrin.h>
#include <stdio.h>
#include <stdlib.h>
#include <string.h>
static unsigned long long seed = 88172645463325252ULL;
static unsigned long long rnd (void) { seed ^= seed << 13; seed ^= seed >> 7; seed ^= seed << 17; return seed; }
static const unsigned short edge[] = { 0, 1, 0x7f, 0x80, 0xff, 0x100, 0x7fff, 0x8000, 0xffff, 0x00ff, 0xff00, 0x8080 };
static void fill (void *p, int k)
{
    unsigned short *w = p; int i;
    for (i = 0; i < 8; i++) w[i] = (k < 2000) ? edge[(k / (1 + i) + i * 7) % 12] : (unsigned short) rnd ();
}
#define CMP(name, expr_model, expr_real) do { __m128i m_ = (__m128i) (expr_model), r_ = (expr_real); \
	if (memcmp (&m_, &r_, 16)) { printf ("MISMATCH %s at vector %d\n", name, k); bad++; } } while (0)
int main (int argc, char **argv)
{
    int k, bad = 0, n = 20000;
    if (argc > 1) seed ^= strtoull (argv[1], 0, 10) * 0x9e3779b97f4a7c15ULL + 1;
    for (k = 0; k < n; k++)
    {
	__m128i a, b; fill (&a, k); fill (&b, k + 3);
	CMP ("packssdw", vpm_packssdw128 ((v4si) a, (v4si) b), _mm_packs_epi32 (a, b));
	CMP ("packuswb", vpm_packuswb128 ((v8hi) a, (v8hi) b), _mm_packus_epi16 (a, b));
	CMP ("paddusb", vpm_paddusb128 ((v16qi) a, (v16qi) b), _mm_adds_epu8 (a, b));
	CMP ("paddusw", vpm_paddusw128 ((v8hi) a, (v8hi) b), _mm_adds_epu16 (a, b));
	CMP ("pmaddwd", vpm_pmaddwd128 ((v8hi) a, (v8hi) b), _mm_madd_epi16 (a, b));
	if (vpm_pmovmskb128 ((v16qi) a) != _mm_movemask_epi8 (a)) { printf ("MISMATCH pmovmskb\n"); bad++; }
	CMP ("pmulhuw", vpm_pmulhuw128 ((v8hi) a, (v8hi) b), _mm_mulhi_epu16 (a, b));
	CMP ("pshufd", vpm_pshufd ((v4si) a, 0x1b), _mm_shuffle_epi32 (a, 0x1b));
	CMP ("pshufd2", vpm_pshufd ((v4si) a, 0xe4), _mm_shuffle_epi32 (a, 0xe4));
	CMP ("pshufd3", vpm_pshufd ((v4si) a, 0x55), _mm_shuffle_epi32 (a, 0x55));
	CMP ("pshufhw", vpm_pshufhw ((v8hi) a, 0xff), _mm_shufflehi_epi16 (a, 0xff));
	CMP ("pshufhw2", vpm_pshufhw ((v8hi) a, 0x1b), _mm_shufflehi_epi16 (a, 0x1b));
	CMP ("pshuflw", vpm_pshuflw ((v8hi) a, 0xff), _mm_shufflelo_epi16 (a, 0xff));
	CMP ("pshuflw2", vpm_pshuflw ((v8hi) a, 0x39), _mm_shufflelo_epi16 (a, 0x39));
	CMP ("pslldi", vpm_pslldi128 ((v4si) a, k % 34), _mm_slli_epi32 (a, k % 34));
	CMP ("psradi", vpm_psradi128 ((v4si) a, k % 34), _mm_srai_epi32 (a, k % 34));
	CMP ("psrldi", vpm_psrldi128 ((v4si) a, k % 34), _mm_srli_epi32 (a, k % 34));
	CMP ("psrlwi", vpm_psrlwi128 ((v8hi) a, k % 18), _mm_srli_epi16 (a, k % 18));
	CMP ("punpckhbw", vpm_punpckhbw128 ((v16qi) a, (v16qi) b), _mm_unpackhi_epi8 (a, b));
	CMP ("punpcklbw", vpm_punpcklbw128 ((v16qi) a, (v16qi) b), _mm_unpacklo_epi8 (a, b));
	CMP ("punpckhwd", vpm_punpckhwd128 ((v8hi) a, (v8hi) b), _mm_unpackhi_epi16 (a, b));
	CMP ("punpcklwd", vpm_punpcklwd128 ((v8hi) a, (v8hi) b), _mm_unpacklo_epi16 (a, b));
	CMP ("punpcklqdq", vpm_punpcklqdq128 ((v2di) a, (v2di) b), _mm_unpacklo_epi64 (a, b));
	if (vpm_vec_ext_v4si ((v4si) a, k & 3) != ((int *) &a)[k & 3]) { printf ("MISMATCH vec_ext\n"); bad++; }
	if (bad > 10) break;
    }
    printf ("%s: %d vectors, %d mismatches\n", bad ? "FAIL" : "OK", k, bad);
    return bad != 0;
}
