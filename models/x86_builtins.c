/* C models of the GCC x86 builtins that pixman-sse2.c reaches (CBMC knows their
 * prototypes but has no bodies).  Lane semantics written from the Intel SDM.
 * The same file is compiled natively under renamed symbols by
 * models/validate_builtins.c and compared with the real instructions on every
 * C02 run (boundary lanes + seeded random vectors); a mismatch makes the check
 * exit 2.  Everything else in <emmintrin.h> is GCC vector arithmetic, which
 * CBMC handles natively. */
#ifndef VPM
#define VPM(name) __builtin_ia32_##name
#endif
typedef char v16qi __attribute__ ((vector_size (16)));
typedef short v8hi __attribute__ ((vector_size (16)));
typedef int v4si __attribute__ ((vector_size (16)));
typedef long long v2di __attribute__ ((vector_size (16)));

static inline short sat16 (int v) { return v > 32767 ? 32767 : v < -32768 ? -32768 : (short) v; }
static inline unsigned char usat8 (int v) { return v > 255 ? 255 : v < 0 ? 0 : (unsigned char) v; }

v8hi VPM (packssdw128) (v4si a, v4si b)
{ v8hi r; int i; for (i = 0; i < 4; i++) { r[i] = sat16 (a[i]); r[i + 4] = sat16 (b[i]); } return r; }
v16qi VPM (packuswb128) (v8hi a, v8hi b)
{ v16qi r; int i; for (i = 0; i < 8; i++) { r[i] = (char) usat8 (a[i]); r[i + 8] = (char) usat8 (b[i]); } return r; }
v16qi VPM (paddusb128) (v16qi a, v16qi b)
{ v16qi r; int i; for (i = 0; i < 16; i++) { int s = (unsigned char) a[i] + (unsigned char) b[i]; r[i] = (char) (s > 255 ? 255 : s); } return r; }
v8hi VPM (paddusw128) (v8hi a, v8hi b)
{ v8hi r; int i; for (i = 0; i < 8; i++) { int s = (unsigned short) a[i] + (unsigned short) b[i]; r[i] = (short) (s > 65535 ? 65535 : s); } return r; }
v4si VPM (pmaddwd128) (v8hi a, v8hi b)
{ v4si r; int i; for (i = 0; i < 4; i++) r[i] = (int) a[2 * i] * b[2 * i] + (int) a[2 * i + 1] * b[2 * i + 1]; return r; }
int VPM (pmovmskb128) (v16qi a)
{ int r = 0, i; for (i = 0; i < 16; i++) if (a[i] < 0) r |= 1 << i; return r; }
v8hi VPM (pmulhuw128) (v8hi a, v8hi b)
{ v8hi r; int i; for (i = 0; i < 8; i++) r[i] = (short) (((unsigned) (unsigned short) a[i] * (unsigned) (unsigned short) b[i]) >> 16); return r; }
v4si VPM (pshufd) (v4si a, int m)
{ v4si r; int i; for (i = 0; i < 4; i++) r[i] = a[(m >> (2 * i)) & 3]; return r; }
v8hi VPM (pshufhw) (v8hi a, int m)
{ v8hi r; int i; for (i = 0; i < 4; i++) { r[i] = a[i]; r[4 + i] = a[4 + ((m >> (2 * i)) & 3)]; } return r; }
v8hi VPM (pshuflw) (v8hi a, int m)
{ v8hi r; int i; for (i = 0; i < 4; i++) { r[i] = a[(m >> (2 * i)) & 3]; r[4 + i] = a[4 + i]; } return r; }
v4si VPM (pslldi128) (v4si a, int n)
{ v4si r; int i; for (i = 0; i < 4; i++) r[i] = (n < 0 || n > 31) ? 0 : (int) ((unsigned) a[i] << n); return r; }
v4si VPM (psradi128) (v4si a, int n)
{ v4si r; int i; for (i = 0; i < 4; i++) r[i] = (n < 0 || n > 31) ? (a[i] < 0 ? -1 : 0) : (a[i] >> n); return r; }
v4si VPM (psrldi128) (v4si a, int n)
{ v4si r; int i; for (i = 0; i < 4; i++) r[i] = (n < 0 || n > 31) ? 0 : (int) ((unsigned) a[i] >> n); return r; }
v8hi VPM (psrlwi128) (v8hi a, int n)
{ v8hi r; int i; for (i = 0; i < 8; i++) r[i] = (n < 0 || n > 15) ? 0 : (short) ((unsigned short) a[i] >> n); return r; }
v16qi VPM (punpckhbw128) (v16qi a, v16qi b)
{ v16qi r; int i; for (i = 0; i < 8; i++) { r[2 * i] = a[8 + i]; r[2 * i + 1] = b[8 + i]; } return r; }
v16qi VPM (punpcklbw128) (v16qi a, v16qi b)
{ v16qi r; int i; for (i = 0; i < 8; i++) { r[2 * i] = a[i]; r[2 * i + 1] = b[i]; } return r; }
v8hi VPM (punpckhwd128) (v8hi a, v8hi b)
{ v8hi r; int i; for (i = 0; i < 4; i++) { r[2 * i] = a[4 + i]; r[2 * i + 1] = b[4 + i]; } return r; }
v8hi VPM (punpcklwd128) (v8hi a, v8hi b)
{ v8hi r; int i; for (i = 0; i < 4; i++) { r[2 * i] = a[i]; r[2 * i + 1] = b[i]; } return r; }
v2di VPM (punpcklqdq128) (v2di a, v2di b)
{ v2di r; r[0] = a[0]; r[1] = b[0]; return r; }
int VPM (vec_ext_v4si) (v4si a, int i) { return a[i & 3]; }
