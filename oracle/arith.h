/* Oracle arithmetic, independent of pixman's macros.
 *
 * o_mul255(a,b): the integer nearest to a*b/255.  Because 255 is odd there are
 * no ties, so it is the unique r with 255r-127 <= ab <= 255r+127.
 *
 * Three interchangeable definitions (selected at compile time):
 *   default       closed form (2ab+255)/510
 *   VP_REL        relational: nondeterministic r constrained by the inequality
 *                 (CBMC only; avoids a divider circuit)
 *   VP_UF         uninterpreted function + the algebraic facts (zero, one,
 *                 commutativity) that the lemma harness proves of the closed
 *                 form; used for the assume-guarantee ("structural") step.
 */
#ifndef ORACLE_ARITH_H
#define ORACLE_ARITH_H
#include <stdint.h>

static inline uint8_t o_mul255_closed (uint8_t a, uint8_t b)
{
    return (uint8_t) ((2u * a * b + 255u) / 510u);
}

#if defined(VP_CBMC) && defined(VP_UF)
uint8_t __CPROVER_uninterpreted_mul255 (uint8_t, uint8_t);
static inline uint8_t o_mul255 (uint8_t a, uint8_t b)
{
    if (a == 0 || b == 0) return 0;
    if (a == 255) return b;
    if (b == 255) return a;
    return a < b ? __CPROVER_uninterpreted_mul255 (a, b) : __CPROVER_uninterpreted_mul255 (b, a);
}
#elif defined(VP_CBMC) && defined(VP_REL)
static inline uint8_t o_mul255 (uint8_t a, uint8_t b)
{
    uint8_t r;
    int p = (int) a * (int) b;
    __CPROVER_assume (255 * (int) r - 127 <= p && p <= 255 * (int) r + 127);
    return r;
}
#else
#define o_mul255 o_mul255_closed
#endif

static inline uint8_t o_sat_add8 (uint8_t a, uint8_t b)
{
    unsigned t = (unsigned) a + b;
    return t > 255 ? 255 : (uint8_t) t;
}

/* channel c (0=B,1=G,2=R,3=A) of a packed a8r8g8b8 word */
static inline uint8_t o_ch (uint32_t p, int c) { return (uint8_t) (p >> (8 * c)); }
static inline uint32_t o_pack (uint8_t a, uint8_t r, uint8_t g, uint8_t b)
{
    return ((uint32_t) a << 24) | ((uint32_t) r << 16) | ((uint32_t) g << 8) | b;
}

/* bit replication n -> 8 bits (n in 1..8) */
static inline uint8_t o_widen8 (unsigned v, int n)
{
    unsigned r = 0; int have = 0;
    if (n == 0) return 0;
    v &= (1u << n) - 1;
    /* left-justify then replicate */
    while (have < 8)
    {
	int take = (8 - have) < n ? (8 - have) : n;
	r = (r << take) | (v >> (n - take));
	have += take;
    }
    return (uint8_t) r;
}
/* truncate 8 -> n most significant bits */
static inline unsigned o_narrow8 (uint8_t v, int n) { return n ? (unsigned) v >> (8 - n) : 0; }

#endif
