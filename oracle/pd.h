/* Porter-Duff / ADD oracle, per channel, canonical association of the Render
 * specification:   s' = s (x) m ;  result = sat( Fa (x) s'  +  Fb (x) d )
 * with Fa, Fb from {0, 1, ad, 1-ad, as', 1-as'} where as' is the (per-channel,
 * for component alpha) alpha of the masked source.  (x) = o_mul255.          */
#ifndef ORACLE_PD_H
#define ORACLE_PD_H
#include "arith.h"

enum { O_F_ZERO, O_F_ONE, O_F_DA, O_F_IDA, O_F_SA, O_F_ISA };

/* operator numbers follow the Render protocol (== pixman_op_t values 0..12) */
static inline void o_pd_factors (int op, int *fa, int *fb)
{
    static const unsigned char tab[13][2] = {
	/* CLEAR        */ { O_F_ZERO, O_F_ZERO },
	/* SRC          */ { O_F_ONE,  O_F_ZERO },
	/* DST          */ { O_F_ZERO, O_F_ONE  },
	/* OVER         */ { O_F_ONE,  O_F_ISA  },
	/* OVER_REVERSE */ { O_F_IDA,  O_F_ONE  },
	/* IN           */ { O_F_DA,   O_F_ZERO },
	/* IN_REVERSE   */ { O_F_ZERO, O_F_SA   },
	/* OUT          */ { O_F_IDA,  O_F_ZERO },
	/* OUT_REVERSE  */ { O_F_ZERO, O_F_ISA  },
	/* ATOP         */ { O_F_DA,   O_F_ISA  },
	/* ATOP_REVERSE */ { O_F_IDA,  O_F_SA   },
	/* XOR          */ { O_F_IDA,  O_F_ISA  },
	/* ADD          */ { O_F_ONE,  O_F_ONE  },
    };
    *fa = tab[op][0];
    *fb = tab[op][1];
}

static inline uint8_t o_factor (int f, uint8_t da, uint8_t sa)
{
    switch (f)
    {
    case O_F_ZERO: return 0;
    case O_F_ONE:  return 255;
    case O_F_DA:   return da;
    case O_F_IDA:  return (uint8_t) (255 - da);
    case O_F_SA:   return sa;
    default:       return (uint8_t) (255 - sa);
    }
}

/* One channel c of the result.
 * mode 0: no mask; 1: unified mask (alpha of m multiplies everything);
 * mode 2: component alpha. */
static inline uint8_t o_pd_channel (int op, int mode, uint32_t s, uint32_t m, uint32_t d, int c)
{
    int fa, fb;
    uint8_t sc = o_ch (s, c), sa = o_ch (s, 3), dc = o_ch (d, c), da = o_ch (d, 3);
    uint8_t s1, sa1;		/* masked source channel; alpha that weights the destination */
    o_pd_factors (op, &fa, &fb);
    if (mode == 0)      { s1 = sc; sa1 = sa; }
    else if (mode == 1) { uint8_t ma = o_ch (m, 3); s1 = o_mul255 (sc, ma); sa1 = o_mul255 (sa, ma); }
    else                { uint8_t mc = o_ch (m, c); s1 = o_mul255 (sc, mc); sa1 = o_mul255 (mc, sa); }
    return o_sat_add8 (o_mul255 (s1, o_factor (fa, da, sa1)), o_mul255 (dc, o_factor (fb, da, sa1)));
}
#endif
