/* Point-set model of regions and the canonical-form predicate (independent of
 * pixman's region code).  Generic over the box type via macros:
 * define O_BOX (box type) and O_COORD_MAX/MIN before including. */
#ifndef ORACLE_REGION_H
#define ORACLE_REGION_H

/* p in box (half-open) */
#define O_IN_BOX(b, x, y) ((x) >= (b).x1 && (x) < (b).x2 && (y) >= (b).y1 && (y) < (b).y2)

/* membership in a list of n boxes */
#define O_DEF_MEMBER(name, box_t)						\
static int name (const box_t *b, int n, long x, long y)			\
{										\
    int i, r = 0;								\
    for (i = 0; i < n; i++) if (O_IN_BOX (b[i], x, y)) r = 1;			\
    return r;									\
}

/* canonical y-x banded form of a list of n >= 1 boxes with given extents */
#define O_DEF_CANONICAL(name, box_t)						\
static int name (const box_t *ext, const box_t *b, int n)			\
{										\
    int i, ok = 1;								\
    long ex1, ex2;								\
    if (n == 0) return ext->x1 == ext->x2 || ext->y1 == ext->y2 || 1;		\
    ex1 = b[0].x1; ex2 = b[0].x2;						\
    for (i = 0; i < n; i++)							\
    {										\
	if (!(b[i].x1 < b[i].x2 && b[i].y1 < b[i].y2)) ok = 0; /* non-empty */	\
	if (b[i].x1 < ex1) ex1 = b[i].x1;					\
	if (b[i].x2 > ex2) ex2 = b[i].x2;					\
	if (i > 0)								\
	{									\
	    if (b[i].y1 == b[i - 1].y1)						\
	    {	/* same band: same y2, strict gap */				\
		if (b[i].y2 != b[i - 1].y2) ok = 0;				\
		if (!(b[i - 1].x2 < b[i].x1)) ok = 0;				\
	    }									\
	    else								\
	    {	/* next band starts at or below the previous band's bottom */	\
		if (!(b[i].y1 >= b[i - 1].y2)) ok = 0;				\
	    }									\
	}									\
    }										\
    /* extents are the tight bounding box */					\
    if (ext->x1 != ex1 || ext->x2 != ex2 || ext->y1 != b[0].y1 || ext->y2 != b[n - 1].y2) ok = 0; \
    return ok;									\
}
/* NOTE: "vertically adjacent bands with identical x-spans are merged" is
 * checked separately by O_DEF_COALESCED (needs a band scan). */
#define O_DEF_COALESCED(name, box_t)						\
static int name (const box_t *b, int n)					\
{										\
    /* for every pair of consecutive bands [p0,p1) [c0,c1): not (adjacent and same spans) */ \
    int p0 = 0, ok = 1;								\
    while (p0 < n)								\
    {										\
	int p1 = p0, c1, k, same;						\
	while (p1 < n && b[p1].y1 == b[p0].y1) p1++;				\
	if (p1 >= n) break;							\
	c1 = p1;								\
	while (c1 < n && b[c1].y1 == b[p1].y1) c1++;				\
	if (b[p1].y1 == b[p0].y2 && (c1 - p1) == (p1 - p0))			\
	{									\
	    same = 1;								\
	    for (k = 0; k < p1 - p0; k++)					\
		if (b[p0 + k].x1 != b[p1 + k].x1 || b[p0 + k].x2 != b[p1 + k].x2) same = 0; \
	    if (same) ok = 0;							\
	}									\
	p0 = p1;								\
    }										\
    return ok;									\
}
#endif
