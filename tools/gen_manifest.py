#!/usr/bin/env python3
"""Regenerates /verif/MANIFEST.json from the per-property metadata in harness/<ID>/instances.py."""
import importlib.util, json, os, sys
V = os.path.dirname(os.path.dirname(os.path.abspath(__file__)))
sys.path.insert(0, V)
props = [json.loads(l) for l in open(os.path.join(V, "properties.jsonl"))]
checks, na = [], []
NA_REASONS = json.load(open(os.path.join(V, "tools", "not_applicable.json"))) if os.path.exists(os.path.join(V, "tools", "not_applicable.json")) else {}
for p in props:
    pid = p["id"]
    ip = os.path.join(V, "harness", pid, "instances.py")
    if not os.path.exists(ip) or pid in NA_REASONS:
        na.append({"property_id": pid, "reason": NA_REASONS.get(pid, "no check built yet for this property (work in progress; see DESIGN.md section 3 for the plan)")})
        continue
    spec = importlib.util.spec_from_file_location("i" + pid, ip)
    m = importlib.util.module_from_spec(spec); spec.loader.exec_module(m)
    checks.append({
        "property_id": pid,
        "quick_cmd": "./check %s --tier quick" % pid,
        "thorough_cmd": "./check %s --tier thorough" % pid,
        "evidence_file": "/verif/evidence/%s.json" % pid,
        "replay_cmd_template": "./check %s --replay {path}" % pid,
        "engine": "cbmc",
        "level_claimed": {"category": getattr(m, "LEVEL", "model_checking"), "text": m.TEXT, "design_ref": "DESIGN.md section 3, " + pid},
        "level_note": m.NOTE,
        "technique": getattr(m, "TECHNIQUE", "bounded symbolic execution of the real pixman C units with CBMC 6.11 (goto-cc), SAT verdict (kissat/cadical) over all symbolic inputs; counterexamples replayed natively"),
    })
man = {
    "version": 1,
    "setup_cmd": "python3 -m vp.selftest",
    "hooks": {
        "guard": "FREEDESKTOP_PIXMAN_VERIF",
        "enable": "checks compile /repo/pixman/*.c with goto-cc/gcc -DFREEDESKTOP_PIXMAN_VERIF (see vp/core.py cppflags)",
        "baseline_off_cmd": "sh -c 'meson compile -C /repo/_build && meson test -C /repo/_build --no-rebuild -t 3'",
        "source_commits": json.load(open(os.path.join(V, "tools", "hook_commits.json"))) if os.path.exists(os.path.join(V, "tools", "hook_commits.json")) else [],
        "add_only": True,
    },
    "engines": [{"name": "cbmc", "path": "/verif/vp", "serves_properties": [c["property_id"] for c in checks],
                 "kind_free_text": "driver around goto-cc + cbmc 6.11 (+kissat/cadical): builds the encoding from /repo's working tree on every run, runs each instance and its reachability-witness twin, replays counterexamples natively (gcc + ASan/UBSan)"}],
    "checks": checks,
    "not_applicable": na,
    "notes": "Exit codes of ./check: 0 held on everything explored; 1 confirmed (natively replayed) violation; 2 check broken/inconclusive (timeouts, vacuous harness, encoding disagreeing with native code) - never counted as a pass.",
}
json.dump(man, open(os.path.join(V, "MANIFEST.json"), "w"), indent=1)
print("checks:", [c["property_id"] for c in checks], "n/a:", [n["property_id"] for n in na])
