#!/bin/sh
# usage: tools/mut.sh '<sed-expr>' <file-under-pixman/> <ID> [check args...]
# Runs a check against a scratch copy of /repo with one sed mutation applied (development aid).
set -e
M=$(mktemp -d /var/tmp/mut-XXXXXX)
trap 'rm -rf "$M"' EXIT
cp -r /repo/pixman "$M/pixman"
cp /repo/meson.build "$M/"
sed -i -e "$1" "$M/pixman/$2"
if diff -q /repo/pixman/$2 "$M/pixman/$2" >/dev/null; then echo "mutation did not change $2"; exit 3; fi
diff -u /repo/pixman/$2 "$M/pixman/$2" | head -20
shift 2
VP_REPO="$M" /verif/check "$@"
