#!/bin/sh
# usage: tools/seed_eval.sh <PID> <worktree> <seeddir> [check args]
# 1. confirms in the scratch worktree: demo PASS without patch, FAIL with patch, test suite passes with patch
# 2. applies the patch to /repo, runs ./check <PID> (quick), reverts /repo
PID=$1; WT=$2; SD=$3; shift 3
OUT=${SEED_OUT:-/verif/seeded/$(basename $WT | sed 's/wt-//')-$(basename $SD)}
mkdir -p $OUT; cp $SD/patch.diff $SD/demo.c $SD/README.txt $OUT/ 2>/dev/null
LOG=$OUT/eval.log; : > $LOG
cd $WT || exit 2
git checkout -q -- pixman
[ -d _build ] || meson setup _build . >/dev/null 2>&1
CC="gcc $SD/demo.c -I$WT/pixman -I$WT/_build/pixman -L$WT/_build/pixman -lpixman-1 -Wl,-rpath,$WT/_build/pixman -lm -lpthread -o $WT/_demo"
meson compile -C _build >/dev/null 2>&1 && $CC >>$LOG 2>&1 && ./_demo >>$LOG 2>&1; echo "demo_without_patch_rc=$?" | tee -a $LOG
git apply $SD/patch.diff || { echo "patch does not apply" | tee -a $LOG; exit 2; }
meson compile -C _build >/dev/null 2>&1 && $CC >>$LOG 2>&1 && ./_demo >>$LOG 2>&1; echo "demo_with_patch_rc=$?" | tee -a $LOG
meson test -C _build --no-rebuild -t 3 2>&1 | grep -E "^Ok:|^Fail:|^Timeout:" | tr '\n' ' ' | tee -a $LOG; echo | tee -a $LOG
cd /verif
if [ "$SEED_IN_REPO" = 1 ]; then
  git -C $WT checkout -q -- pixman
  git -C /repo apply $SD/patch.diff || { echo "patch does not apply to /repo"; exit 2; }
  ./check $PID "$@" > $OUT/check.log 2>&1; echo "check_rc=$? (patch applied to /repo)" | tee -a $LOG
  git -C /repo checkout -- .
else
  VP_REPO=$WT ./check $PID --only "${SEED_ONLY:-*}" "$@" > $OUT/check.log 2>&1; echo "check_rc=$? (VP_REPO=patched worktree)" | tee -a $LOG
  git -C $WT checkout -q -- pixman
fi
grep -E "VIOLATION|KNOWN-FINDING|BROKEN|^\[" $OUT/check.log | cut -c1-220 | head -8 | tee -a $LOG
