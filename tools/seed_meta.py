#!/usr/bin/env python3
"""Writes seeded/<id>/meta.json from the evaluation log of tools/seed_eval.sh."""
import json, os, re, sys
V = os.path.dirname(os.path.dirname(os.path.abspath(__file__)))
PROP = json.load(open(os.path.join(V, "tools", "seed_props.json"))) if os.path.exists(os.path.join(V, "tools", "seed_props.json")) else {}
for d in sorted(os.listdir(os.path.join(V, "seeded"))):
    p = os.path.join(V, "seeded", d)
    log = os.path.join(p, "eval.log")
    if not os.path.isdir(p) or not os.path.exists(log):
        continue
    t = open(log).read()
    g = lambda k: (re.search(k + r"=(-?\d+)", t) or [None, None])[1]
    tests = re.search(r"Ok:\s+(\d+)\s+Fail:\s+(\d+)", t)
    readme = open(os.path.join(p, "README.txt")).read() if os.path.exists(os.path.join(p, "README.txt")) else ""
    chk = open(os.path.join(p, "check.log")).read() if os.path.exists(os.path.join(p, "check.log")) else ""
    pid_checked = (re.search(r"^\[(C\d+)\]", chk, re.M) or [None, None])[1]
    meta = {
        "seed": d,
        "property_broken": PROP.get(d, d.split("-")[0]),
        "needs_to_manifest": (readme.strip().split("\n\n")[0])[:900],
        "confirmed_by_me": {
            "demo_without_patch_exit": int(g("demo_without_patch_rc") or -1),
            "demo_with_patch_exit": int(g("demo_with_patch_rc") or -1),
            "test_suite_with_patch": {"ok": int(tests.group(1)), "fail": int(tests.group(2))} if tests else None,
            "how": "tools/seed_eval.sh in a scratch worktree: build, run demo without/with patch, meson test with patch",
        },
        "check_run": {"check": pid_checked, "exit": int(g("check_rc") or -1),
                      "detected": int(g("check_rc") or 0) == 1,
                      "violation_lines": [l for l in chk.splitlines() if l.startswith("VIOLATION")][:4]},
    }
    json.dump(meta, open(os.path.join(p, "meta.json"), "w"), indent=1)
    print(d, "detected" if meta["check_run"]["detected"] else "MISSED", "by", pid_checked)
