#!/bin/sh
# usage: tools/seed_recheck.sh <seed-dir-name> <PID> <only-pattern>
# Re-runs one check (restricted to the named instances) against a scratch worktree of /repo's HEAD with the seed's patch applied,
# and records the outcome in seeded/<seed>/check.log and eval.log (the confirmation lines of eval.log are kept).
S=/verif/seeded/$1; PID=$2; PAT=$3
WT=$(mktemp -d /tmp/wt-rechk-XXXXXX); rmdir $WT
git -C /repo worktree add -q --detach $WT HEAD || exit 2
git -C $WT apply $S/patch.diff || { git -C /repo worktree remove --force $WT; exit 2; }
cd /verif
VP_REPO=$WT ./check $PID ${SEED_TIER:+--tier $SEED_TIER} --only "$PAT" > $S/check.log 2>&1; rc=$?
git -C /repo worktree remove --force $WT
grep -v -E "^check_rc=|^VIOLATION|^KNOWN-FINDING|^BROKEN|^\[C" $S/eval.log > $S/eval.log.new
echo "check_rc=$rc (VP_REPO=patched worktree, ./check $PID --only '$PAT')" >> $S/eval.log.new
grep -E "VIOLATION|KNOWN-FINDING|BROKEN|^\[" $S/check.log | cut -c1-220 | head -8 >> $S/eval.log.new
mv $S/eval.log.new $S/eval.log
echo "$1 $PID rc=$rc"
