#!/usr/bin/env python3
"""Writes seeded/RESULTS.md from seeded/*/meta.json."""
import json, os
V = os.path.dirname(os.path.dirname(os.path.abspath(__file__)))
rows = []
for d in sorted(os.listdir(os.path.join(V, "seeded"))):
    mp = os.path.join(V, "seeded", d, "meta.json")
    if not os.path.exists(mp):
        continue
    m = json.load(open(mp))
    c = m["confirmed_by_me"]; k = m["check_run"]
    ok_seed = c["demo_without_patch_exit"] == 0 and c["demo_with_patch_exit"] not in (0, -1) and c["test_suite_with_patch"] and c["test_suite_with_patch"]["fail"] == 0
    first = m["needs_to_manifest"].replace("\n", " ")[:150]
    rows.append("| %s | %s | %s | %s | %s | %s |" % (d, m["property_broken"], "yes" if ok_seed else "NO", k["check"], "detected" if k["detected"] else ("check broken (exit 2)" if k["exit"] == 2 else "missed"), first))
open(os.path.join(V, "seeded", "RESULTS.md"), "w").write(
    "# Seeded breaking changes: confirmation and detection\n\n"
    "Each row: the change was confirmed by me (demo passes without / fails with the patch, 33/33 tests pass with it) and the named check was run on the patched tree "
    "(worktree at /repo's HEAD with the patch applied, `VP_REPO=<worktree> ./check <ID>`).\n\n"
    "| seed | property | confirmed | check run | outcome | what it needs (from the seed's README) |\n|---|---|---|---|---|---|\n" + "\n".join(rows) + "\n")
print(len(rows), "rows;", sum("| detected |" in r for r in rows), "detected")
