"""Core of the solver-based checking machinery for pixman.

Everything is regenerated from /repo's current working tree on every run:
the goto-cc encoding of the library, the harness binaries and (on demand) the
native replay builds.  Scratch output lives in a per-run temporary directory
outside /repo and /verif and is removed at exit.
"""
import atexit, concurrent.futures as cf, hashlib, json, os, re, resource, shutil
import signal, subprocess, sys, tempfile, threading, time

VERIF = os.path.dirname(os.path.dirname(os.path.abspath(__file__)))
REPO = os.environ.get("VP_REPO", "/repo")
GUARD = "FREEDESKTOP_PIXMAN_VERIF"
HARNESS = os.path.join(VERIF, "harness")
MODELS = os.path.join(VERIF, "models")
NJOBS = int(os.environ.get("VP_JOBS", "0")) or (os.cpu_count() or 4)

LIB_UNITS = [
    "pixman.c", "pixman-access.c", "pixman-access-accessors.c",
    "pixman-bits-image.c", "pixman-combine32.c", "pixman-combine-float.c",
    "pixman-conical-gradient.c", "pixman-filter.c", "pixman-x86.c",
    "pixman-mips.c", "pixman-arm.c", "pixman-ppc.c", "pixman-edge.c",
    "pixman-edge-accessors.c", "pixman-fast-path.c", "pixman-glyph.c",
    "pixman-general.c", "pixman-gradient-walker.c", "pixman-image.c",
    "pixman-implementation.c", "pixman-linear-gradient.c", "pixman-matrix.c",
    "pixman-noop.c", "pixman-radial-gradient.c", "pixman-region16.c",
    "pixman-region32.c", "pixman-solid-fill.c", "pixman-timer.c",
    "pixman-trap.c", "pixman-utils.c",
]
SIMD_UNITS = {"pixman-sse2.c": ["-msse2"], "pixman-ssse3.c": ["-mssse3"],
              "pixman-mmx.c": ["-mmmx", "-msse"]}

CONFIG_COMMON = """
#define HAVE_BUILTIN_CLZ 1
#define HAVE_FLOAT128 1
#define HAVE_GCC_VECTOR_EXTENSIONS 1
#define HAVE_PTHREADS 1
#define HAVE_UNISTD_H 1
#define HAVE_GETPAGESIZE 1
#define HAVE_POSIX_MEMALIGN 1
#define PACKAGE pixman
#define SIZEOF_LONG 8
#define TLS __thread
#define USE_GCC_INLINE_ASM 1
"""


def log(*a):
    print(*a, file=sys.stderr, flush=True)


class Ctx:
    """One run of one check: owns the scratch directory and the caches."""

    def __init__(self, pid, tier, seed=0):
        self.pid, self.tier, self.seed = pid, tier, seed
        base = os.environ.get("VP_SCRATCH", "/var/tmp")
        os.makedirs(base, exist_ok=True)
        self.work = tempfile.mkdtemp(prefix="vpw-%s-" % pid, dir=base)
        atexit.register(self.cleanup)
        self._lock = threading.RLock()
        self._goto = {}
        self._native = {}
        self._cfg = {}
        self.t0 = time.time()

    def cleanup(self):
        if os.environ.get("VP_KEEP"):
            log("scratch kept at", self.work)
            return
        shutil.rmtree(self.work, ignore_errors=True)

    # ---- configuration headers -------------------------------------
    def cfgdir(self, simd=False, ctor=False):
        key = (simd, ctor)
        with self._lock:
            if key in self._cfg:
                return self._cfg[key]
            d = os.path.join(self.work, "cfg_%d_%d" % key)
            os.makedirs(d, exist_ok=True)
            cfg = "#pragma once\n" + CONFIG_COMMON
            if simd:
                cfg += "#define USE_SSE2 1\n#define USE_SSSE3 1\n#define USE_X86_MMX 1\n"
            if ctor:
                cfg += "#define TOOLCHAIN_SUPPORTS_ATTRIBUTE_CONSTRUCTOR 1\n"
            open(os.path.join(d, "config.h"), "w").write(cfg)
            ver = "0.0.0"
            m = re.search(r"version\s*:\s*'([0-9.]+)'", open(os.path.join(REPO, "meson.build")).read())
            if m:
                ver = m.group(1)
            tmpl = open(os.path.join(REPO, "pixman", "pixman-version.h.in")).read()
            mj, mn, mc = (ver.split(".") + ["0", "0"])[:3]
            tmpl = (tmpl.replace("@PIXMAN_VERSION_MAJOR@", mj)
                    .replace("@PIXMAN_VERSION_MINOR@", mn)
                    .replace("@PIXMAN_VERSION_MICRO@", mc))
            open(os.path.join(d, "pixman-version.h"), "w").write(tmpl)
            self._cfg[key] = d
            return d

    def cppflags(self, simd=False, ctor=False):
        return ["-DHAVE_CONFIG_H", "-D" + GUARD, "-I" + self.cfgdir(simd, ctor),
                "-I" + os.path.join(REPO, "pixman"), "-I" + HARNESS,
                "-I" + os.path.join(VERIF, "oracle"), "-I" + MODELS]

    # ---- goto-cc build of the library -------------------------------
    def goto_units(self, units, simd=False, extra_defs=()):
        """Compile library units with goto-cc (cached); returns list of objects."""
        out = []
        todo = []
        tag = hashlib.sha1(repr((simd, tuple(extra_defs))).encode()).hexdigest()[:8]
        d = os.path.join(self.work, "goto_" + tag)
        os.makedirs(d, exist_ok=True)
        with self._lock:
            for u in units:
                o = os.path.join(d, u.replace(".c", ".gb"))
                out.append(o)
                if (tag, u) not in self._goto:
                    self._goto[(tag, u)] = o
                    todo.append((u, o))
            if todo:
                cpp = self.cppflags(simd)

                def one(uo):
                    u, o = uo
                    cmd = ["goto-cc", "-c", os.path.join(REPO, "pixman", u), "-o", o]
                    cmd += cpp + list(extra_defs) + SIMD_UNITS.get(u, [])
                    r = subprocess.run(cmd, capture_output=True, text=True)
                    if r.returncode != 0:
                        raise RuntimeError("goto-cc failed for %s:\n%s" % (u, r.stderr[-3000:]))
                with cf.ThreadPoolExecutor(NJOBS) as ex:
                    list(ex.map(one, todo))
        return out

    # ---- native build for replay ------------------------------------
    def native_lib(self, san=True, simd=False, extra_defs=(), units=None):
        """Native objects of the requested library units (cached per unit)."""
        key = (san, simd, tuple(extra_defs))
        flags = (["-O1", "-g", "-fsanitize=address,undefined", "-fno-omit-frame-pointer",
                  "-fno-sanitize-recover=undefined"] if san else ["-O2"])
        if units is None:
            units = list(LIB_UNITS) + (list(SIMD_UNITS) if simd else [])
        with self._lock:
            objs = self._native.setdefault(key, {})
            tag = hashlib.sha1(repr(key).encode()).hexdigest()[:8]
            d = os.path.join(self.work, "native_" + tag)
            os.makedirs(d, exist_ok=True)
            cpp = self.cppflags(simd, ctor=True)
            todo = [u for u in units if u not in objs]

            def one(u):
                o = os.path.join(d, u.replace(".c", ".o"))
                cmd = ["gcc", "-c", "-w", os.path.join(REPO, "pixman", u), "-o", o] + flags
                cmd += cpp + list(extra_defs) + SIMD_UNITS.get(u, [])
                r = subprocess.run(cmd, capture_output=True, text=True)
                if r.returncode != 0:
                    raise RuntimeError("gcc failed for %s:\n%s" % (u, r.stderr[-3000:]))
                objs[u] = o
            if todo:
                with cf.ThreadPoolExecutor(NJOBS) as ex:
                    list(ex.map(one, todo))
            return {u: objs[u] for u in units}, flags


# Loops of the library that walk implementation / format tables: they need large bounds, while
# everything else in an API-level harness is bounded by the (tiny) image geometry.
API_UNWINDSET = (
    "_pixman_implementation_create.0:66",
    "_pixman_implementation_lookup_composite.0:400", "_pixman_implementation_lookup_composite.1:400",
    "_pixman_implementation_lookup_composite.2:400", "_pixman_implementation_lookup_composite.3:400",
    "_pixman_implementation_iter_init.0:80", "_pixman_implementation_iter_init.1:80",
    "_pixman_implementation_lookup_combiner.0:8", "_pixman_implementation_fill.0:8", "_pixman_implementation_blt.0:8",
    "setup_accessors.0:64", "setup_accessors$link1.0:64", "_pixman_choose_implementation.0:8",
    "_pixman_bits_image_src_iter_init.0:60",
)


class Inst:
    """One solver query family: a harness file with a concrete -D set."""

    def __init__(self, name, harness, defines=None, link="lib", exclude=(), unwind=None,
                 unwindset=(), checks=(), malloc_fail=False, timeout=None, solver="kissat",
                 objbits=None, models=("env_stubs.c",), simd=False, desc=None, slice_=True,
                 mem_gb=12, extra_cbmc=(), unwind_fail_is_violation=False, lib_defs=(),
                 ub_checks_informational=True, witness=True, nondet_static=False, shadow=None, replace_calls=()):
        self.name, self.harness = name, harness
        self.defines = dict(defines or {})
        self.link, self.exclude = link, tuple(exclude)
        self.unwind, self.unwindset = unwind, tuple(unwindset)
        self.checks, self.malloc_fail = tuple(checks), malloc_fail
        self.timeout, self.solver, self.objbits = timeout, solver, objbits
        self.models, self.simd = tuple(models), simd
        self.desc = desc or {}
        self.slice_, self.mem_gb = slice_, mem_gb
        self.extra_cbmc = tuple(extra_cbmc)
        self.unwind_fail_is_violation = unwind_fail_is_violation
        self.lib_defs = tuple(lib_defs)
        self.witness = witness
        self.nondet_static = nondet_static
        self.shadow = shadow
        self.replace_calls = tuple(replace_calls)

    def key(self):
        return self.name


def _limit(mem_gb):
    def f():
        os.setsid()
        if mem_gb:
            b = int(mem_gb * (1 << 30))
            resource.setrlimit(resource.RLIMIT_AS, (b, b))
    return f


def run_cmd(cmd, timeout, mem_gb=None, cwd=None, env=None):
    """Run a command in its own process group with wall/mem limits.
    Returns (rc, stdout, stderr, wall, timed_out)."""
    t0 = time.time()
    if mem_gb:
        cmd = ["prlimit", "--as=%d" % int(mem_gb * (1 << 30))] + list(cmd)
    p = subprocess.Popen(cmd, stdout=subprocess.PIPE, stderr=subprocess.PIPE, text=True,
                         start_new_session=True, cwd=cwd, env=env)
    try:
        out, err = p.communicate(timeout=timeout)
        return p.returncode, out, err, time.time() - t0, False
    except subprocess.TimeoutExpired:
        try:
            os.killpg(p.pid, signal.SIGKILL)
        except ProcessLookupError:
            pass
        out, err = p.communicate()
        return -9, out, err, time.time() - t0, True


def defs_to_flags(defines):
    fl = []
    for k, v in defines.items():
        fl.append("-D%s" % k if v is None or v is True else "-D%s=%s" % (k, v))
    return fl


def shadow_flags(ctx, inst, d):
    """Shadow-include mechanism: a byte-identical copy of one library unit is placed
    in a scratch directory next to a shim header that shadows one of the headers the
    unit includes with quotes (e.g. pixman-combine32.h, which has no include guard).
    The shim includes the real header by absolute path and then the harness's
    re-bindings.  The harness includes the copy through VP_SHADOW_UNIT."""
    if not inst.shadow:
        return []
    sd = os.path.join(d, "shadow")
    os.makedirs(sd, exist_ok=True)
    unit = inst.shadow["unit"]
    shutil.copyfile(os.path.join(REPO, "pixman", unit), os.path.join(sd, unit))
    with open(os.path.join(sd, inst.shadow["header"]), "w") as f:
        f.write('#include "%s"\n#include "%s"\n' % (os.path.join(REPO, "pixman", inst.shadow["header"]),
                                                   os.path.join(HARNESS, inst.shadow["shim"])))
    return ['-DVP_SHADOW_UNIT="%s"' % os.path.join(sd, unit)]


def build_instance(ctx, inst, witness):
    d = os.path.join(ctx.work, "inst", re.sub(r"[^A-Za-z0-9_.-]", "_", inst.name) + ("_w" if witness else ""))
    os.makedirs(d, exist_ok=True)
    objs = []
    defs = ["-DVP_CBMC"] + defs_to_flags(inst.defines) + (["-DVP_WITNESS"] if witness else [])
    defs += shadow_flags(ctx, inst, d)
    simd_flags = ["-msse2", "-mssse3", "-mmmx", "-msse"] if inst.simd else []
    srcs = [os.path.join(HARNESS, inst.harness)] + [os.path.join(MODELS, m) for m in inst.models]
    for i, s in enumerate(srcs):
        o = os.path.join(d, "h%d.gb" % i)
        cmd = ["goto-cc", "-c", s, "-o", o] + ctx.cppflags(inst.simd) + defs + simd_flags
        r = subprocess.run(cmd, capture_output=True, text=True)
        if r.returncode != 0:
            raise RuntimeError("goto-cc failed for harness %s:\n%s" % (s, r.stderr[-4000:]))
        objs.append(o)
    if inst.link == "lib":
        units = [u for u in LIB_UNITS if u not in inst.exclude]
        if inst.simd:
            units += [u for u in SIMD_UNITS if u not in inst.exclude]
    else:
        units = list(inst.link or [])
    if units:
        objs += ctx.goto_units(units, simd=inst.simd, extra_defs=inst.lib_defs)
    gb = os.path.join(d, "linked.gb")
    r = subprocess.run(["goto-cc", "-o", gb] + objs, capture_output=True, text=True)
    if r.returncode != 0:
        raise RuntimeError("goto-cc link failed for %s:\n%s" % (inst.name, r.stderr[-4000:]))
    if inst.replace_calls:
        # assume-guarantee cut: calls to f are redirected to a harness-supplied contract stub g (CBMC run only;
        # the native replay runs the real f)
        gb2 = os.path.join(d, "linked-rc.gb")
        r = subprocess.run(["goto-instrument", "--replace-calls", ",".join(inst.replace_calls), gb, gb2], capture_output=True, text=True)
        if r.returncode != 0 or not os.path.exists(gb2):
            raise RuntimeError("goto-instrument --replace-calls failed for %s:\n%s" % (inst.name, (r.stdout + r.stderr)[-2000:]))
        gb = gb2
    return gb


def cbmc_cmd(inst, gb, witness):
    cmd = ["cbmc", gb, "--function", "harness", "--json-ui", "--verbosity", "8", "--no-standard-checks", "--drop-unused-functions"]
    if inst.unwind:
        cmd += ["--unwind", str(inst.unwind)]
    if inst.unwindset:
        cmd += ["--unwindset", ",".join(inst.unwindset)]
    if inst.objbits:
        cmd += ["--object-bits", str(inst.objbits)]
    if inst.slice_:
        cmd += ["--slice-formula"]
    if inst.nondet_static:
        cmd += ["--nondet-static"]
    cmd += ["--malloc-may-fail", "--malloc-fail-null"] if inst.malloc_fail else ["--no-malloc-may-fail"]
    cmd += list(inst.extra_cbmc)
    if witness:
        sol = "cadical"
    else:
        cmd += ["--unwinding-assertions", "--trace"] + list(inst.checks)
        sol = inst.solver
    if sol == "kissat":
        cmd += ["--external-sat-solver", "kissat"]
    elif sol == "cadical":
        cmd += ["--sat-solver", "cadical"]
    elif sol in ("z3", "cvc5", "bitwuzla"):
        cmd += ["--" + sol]
    return cmd


STAT_RES = {
    "steps": re.compile(r"size of program expression: (\d+) steps"),
    "vars": re.compile(r"(\d+) variables, (\d+) clauses"),
    "symex_s": re.compile(r"Runtime Symex: ([0-9.eE+-]+)s"),
    "solver_s": re.compile(r"Runtime Solver: ([0-9.eE+-]+)s"),
    "vccs": re.compile(r"Generated (\d+) VCC\(s\), (\d+) remaining after simplification"),
}


def parse_cbmc(out):
    """Parse --json-ui output; returns dict(status, props, stats, messages)."""
    res = {"status": None, "props": [], "stats": {}, "errors": []}
    try:
        data = json.loads(out)
    except Exception:
        # truncated output (killed): try to salvage nothing
        res["status"] = "error"
        res["errors"].append("unparsable cbmc output (%d bytes)" % len(out))
        return res
    for m in data:
        if "messageText" in m:
            t = m["messageText"]
            if m.get("messageType") == "ERROR":
                res["errors"].append(t)
            for k, rx in STAT_RES.items():
                mm = rx.search(t)
                if mm:
                    if k == "vars":
                        res["stats"]["vars"] = int(mm.group(1)); res["stats"]["clauses"] = int(mm.group(2))
                    elif k == "vccs":
                        res["stats"]["vccs"] = int(mm.group(1)); res["stats"]["vccs_remaining"] = int(mm.group(2))
                    elif k == "steps":
                        res["stats"]["steps"] = int(mm.group(1))
                    else:
                        res["stats"][k] = res["stats"].get(k, 0.0) + float(mm.group(1))
        if "result" in m:
            res["props"] = m["result"]
        if "property" in m and "status" in m and "description" in m:
            # --stop-on-fail form: a single failed property with its trace
            m = dict(m)
            m["status"] = {"failed": "FAILURE"}.get(m["status"], m["status"])
            res["props"].append(m)
        if "cProverStatus" in m:
            res["status"] = m["cProverStatus"]
    return res


def trace_inputs(trace):
    """Map harness-level named lvalues to their (last) assigned integer value."""
    vals = {}
    for s in trace or []:
        if s.get("stepType") != "assignment":
            continue
        fn = (s.get("sourceLocation") or {}).get("function", "")
        lhs = s.get("lhs", "")
        v = s.get("value") or {}
        if "data" not in v or v.get("name") not in ("integer", "float", "pointer", None) and "binary" not in v:
            continue
        if not fn.startswith("harness") and not fn.startswith("vp_"):
            continue
        if v.get("name") == "integer" or "binary" in v:
            b = v.get("binary")
            if b is None:
                continue
            n = int(b, 2)
            w = v.get("width", len(b))
            t = v.get("type", "")
            if not t.startswith("unsigned") and "unsigned" not in t and b[0] == "1" and not t.startswith("_Bool"):
                if t.startswith(("signed", "int", "long", "short", "char")) or "signed" in t or t in ("int",):
                    n -= 1 << w
            key = re.sub(r"(\d+)l\]", r"\1]", lhs).replace(" ", "")
            vals[key] = n
    return vals


class Result:
    def __init__(self, inst):
        self.inst = inst
        self.verdict = None        # pass | fail | inconclusive | vacuous | error
        self.failed = []           # list of dict(property, description, trace_inputs, kind)
        self.unwind_failed = []
        self.stats = {}
        self.wstats = {}
        self.wall = 0.0
        self.note = ""
        self.witness_inputs = None
        self.n_props = 0


def classify(prop):
    d = prop.get("description", "")
    p = prop.get("property", "")
    if d.startswith("VP_WITNESS"):
        return "witness"
    if "unwinding assertion" in d or ".unwind." in p:
        return "unwind"
    if d.startswith("VP:"):
        return "user"
    if ".assertion." in p:
        return "libassert"
    if "recursion" in p:
        return "unwind"
    return "builtin"


def run_instance(ctx, inst):
    r = Result(inst)
    t0 = time.time()
    timeout = inst.timeout or (400 if ctx.tier == "quick" else 900)
    try:
        gb = build_instance(ctx, inst, False)
        gbw = build_instance(ctx, inst, True) if inst.witness else None
    except Exception as e:
        r.verdict, r.note = "error", str(e)
        r.wall = time.time() - t0
        return r
    wcmd = None
    if gbw:
        # check ONLY the witness assertion in the twin (lets --slice-formula drop everything else):
        # look its property id up first (no symbolic execution involved)
        wcmd = cbmc_cmd(inst, gbw, True)
        try:
            rc0, out0, _, _, _ = run_cmd(["cbmc", gbw, "--function", "harness", "--no-standard-checks", "--drop-unused-functions",
                                          "--show-properties", "--json-ui"], 300, inst.mem_gb)
            wids = []
            for m in json.loads(out0):
                for pr in m.get("properties", []) if isinstance(m, dict) else []:
                    if pr.get("description") == "VP_WITNESS":
                        wids.append(pr.get("name"))
            for wid in wids:
                wcmd += ["--property", wid]
        except Exception:
            pass
    # CBMC writes the CNF for the external SAT solver to $TMPDIR and leaves it behind when it is killed on
    # timeout (2 GB each): keep those files inside the run's scratch directory, which is removed at exit
    tdir = os.path.join(os.path.dirname(gb), "tmp")
    os.makedirs(tdir, exist_ok=True)
    cenv = dict(os.environ, TMPDIR=tdir, TMP=tdir, TEMP=tdir)
    with cf.ThreadPoolExecutor(2) as ex:
        fp = ex.submit(run_cmd, cbmc_cmd(inst, gb, False), timeout, inst.mem_gb, None, cenv)
        fw = ex.submit(run_cmd, wcmd, timeout, inst.mem_gb, None, cenv) if gbw else None
        rc, out, err, wall, to = fp.result()
        wres = fw.result() if fw else None
    r.wall = time.time() - t0
    shutil.rmtree(tdir, ignore_errors=True)
    # witness
    if wres is not None:
        wrc, wout, werr, wwall, wto = wres
        if wto:
            r.verdict, r.note = "inconclusive", "witness twin timed out after %ds" % timeout
            return r
        w = parse_cbmc(wout)
        r.wstats = w["stats"]
        reached = [p for p in w["props"] if classify(p) == "witness" and p.get("status") == "FAILURE"]
        if not reached:
            if w["status"] == "success" or any(classify(p) == "witness" for p in w["props"]):
                r.verdict, r.note = "vacuous", "witness assertion unreachable: harness is vacuous"
                if not to:
                    uf = [p.get("property") for p in parse_cbmc(out)["props"] if classify(p) == "unwind" and p.get("status") == "FAILURE"]
                    r.note += " (unwinding assertions failing in the property run: %s)" % uf[:6]
            else:
                r.verdict, r.note = "error", "witness run failed: rc=%s %s %s" % (wrc, w["errors"][:2], werr[-500:])
            return r
        r.witness_inputs = trace_inputs(reached[0].get("trace"))
    if to:
        r.verdict, r.note = "inconclusive", "timeout after %ds" % timeout
        return r
    pr = parse_cbmc(out)
    r.stats = pr["stats"]
    if pr["status"] not in ("success", "failure"):
        r.verdict = "inconclusive"
        r.note = "cbmc rc=%s status=%s errors=%s stderr=%s" % (rc, pr["status"], pr["errors"][:3], err[-600:])
        return r
    r.n_props = len(pr["props"])
    unknown = []
    for p in pr["props"]:
        if p.get("status") in ("SUCCESS",):
            continue
        kind = classify(p)
        if p.get("status") != "FAILURE":
            unknown.append(p.get("property"))
            continue
        item = {"property": p.get("property"), "description": p.get("description"), "kind": kind,
                "location": p.get("sourceLocation"), "inputs": trace_inputs(p.get("trace"))}
        if kind == "unwind" and not inst.unwind_fail_is_violation:
            r.unwind_failed.append(item)
        else:
            r.failed.append(item)
    if r.unwind_failed and not r.failed:
        r.verdict = "error"
        r.note = "unwinding bound too small: %s" % [u["property"] for u in r.unwind_failed[:5]]
    elif r.failed:
        r.verdict = "fail"
    elif unknown:
        r.verdict, r.note = "inconclusive", "properties with status UNKNOWN: %s" % unknown[:5]
    else:
        r.verdict = "pass"
    return r


# ---------------------------------------------------------------------------
# native replay

def replay_native(ctx, inst, inputs, san=True, replay_file=None):
    """Compile the same harness natively against /repo's sources and run it on
    the recorded inputs.  Returns (outcome, detail): outcome in
    reproduced-assert | reproduced-sanitizer | not-reproduced | assume-failed | error."""
    # the native replay always links the whole library (unit harnesses that #include a
    # unit shadow its symbols: harness object first + --allow-multiple-definition)
    want = [u for u in LIB_UNITS + (list(SIMD_UNITS) if inst.simd else [])]
    objs, flags = ctx.native_lib(san=san, simd=inst.simd, extra_defs=inst.lib_defs, units=want)
    d = tempfile.mkdtemp(prefix="replay-", dir=ctx.work)
    if replay_file is None:
        replay_file = os.path.join(d, "inputs.txt")
        write_replay_file(replay_file, inst, inputs)
    exe = os.path.join(d, "replay")
    simd_flags = ["-msse2", "-mssse3", "-mmmx", "-msse"] if inst.simd else []
    units = want
    cmd = (["gcc", "-w", "-DVP_REPLAY", os.path.join(HARNESS, inst.harness), os.path.join(HARNESS, "vp_replay.c")]
           + [os.path.join(MODELS, m) for m in inst.models if m not in ("env_stubs.c", "x86_builtins.c", "libm_stubs.c")]
           + flags + ctx.cppflags(inst.simd, ctor=True) + defs_to_flags(inst.defines) + simd_flags + shadow_flags(ctx, inst, d)
           + [objs[u] for u in units] + ["-Wl,--allow-multiple-definition", "-o", exe, "-lm", "-lpthread"])
    r = subprocess.run(cmd, capture_output=True, text=True)
    if r.returncode != 0:
        return "error", "native harness build failed: " + r.stderr[-3000:]
    env = dict(os.environ, VP_REPLAY_FILE=replay_file,
               ASAN_OPTIONS="exitcode=98:detect_odr_violation=0:detect_leaks=%d:allocator_may_return_null=1" % (1 if "--memory-leak-check" in inst.checks else 0),
               UBSAN_OPTIONS="halt_on_error=1:exitcode=97:print_stacktrace=1")
    rc, out, err, wall, to = run_cmd([exe], 120, None, env=env)
    tail = err[-2500:]
    if to:
        return "reproduced-hang", "native replay did not terminate in 120 s"
    if rc == 99:
        return "reproduced-assert", tail
    if rc in (98, 97) or rc < 0 or "AddressSanitizer" in err or "runtime error" in err:
        return "reproduced-sanitizer", "rc=%d %s" % (rc, tail)
    if rc == 134:
        return "reproduced-abort", tail
    if rc == 77:
        return "assume-failed", tail
    if rc == 0:
        return "not-reproduced", tail
    return "error", "rc=%d %s" % (rc, tail)


def write_replay_file(path, inst, inputs):
    os.makedirs(os.path.dirname(path), exist_ok=True)
    with open(path, "w") as f:
        f.write("#instance %s\n" % inst.name)
        for k, v in sorted(inputs.items()):
            if re.match(r"^[A-Za-z_][A-Za-z0-9_.\[\]>-]*$", k):
                f.write("%s %d\n" % (k, v))


def read_replay_file(path):
    inputs, name = {}, None
    for line in open(path):
        if line.startswith("#instance"):
            name = line.split()[1]
            continue
        p = line.split()
        if len(p) == 2:
            inputs[p[0]] = int(p[1])
    return name, inputs
