"""Check driver: ./check <ID> --tier quick|thorough  |  ./check <ID> --replay <file>"""
import argparse, concurrent.futures as cf, fnmatch, hashlib, importlib.util, json, os, re, sys, time
from . import core
from .core import Ctx, Inst, log

KNOWN_FILE = os.path.join(core.VERIF, "known_findings.txt")


def load_module(pid):
    path = os.path.join(core.HARNESS, pid, "instances.py")
    spec = importlib.util.spec_from_file_location("inst_" + pid, path)
    mod = importlib.util.module_from_spec(spec)
    spec.loader.exec_module(mod)
    return mod


def load_known(pid):
    out = []
    if not os.path.exists(KNOWN_FILE):
        return out
    for line in open(KNOWN_FILE):
        line = line.strip()
        if not line.startswith("known:"):
            continue
        m = re.match(r"known:\s+property=(\S+)\s+instance=(\S+)\s+assert=(\S+)\s+(.*)$", line)
        if m and m.group(1) == pid:
            out.append({"instance": m.group(2), "assert": m.group(3), "what": m.group(4)})
    return out


def match_known(known, inst, item):
    desc = (item.get("description") or "") + " " + (item.get("property") or "")
    for k in known:
        if fnmatch.fnmatch(inst.name, k["instance"]) and (k["assert"] == "*" or k["assert"] in desc):
            return k
    return None


def fn_list(ctx, inst):
    """Names of pixman functions reachable in one linked instance (for evidence)."""
    try:
        gb = core.build_instance(ctx, inst, False)
        cmd = ["goto-instrument", "--drop-unused-functions", gb, gb + ".du"]
        core.run_cmd(cmd, 120)
        rc, out, err, _, _ = core.run_cmd(["goto-instrument", "--list-goto-functions", gb + ".du"], 120)
        names = set()
        for line in out.splitlines():
            line = line.strip()
            if re.match(r"^[A-Za-z_][A-Za-z0-9_]*$", line) and not line.startswith(("__CPROVER", "nondet_")):
                names.add(line)
        if not names:
            rc, out, err, _, _ = core.run_cmd(["goto-instrument", "--show-goto-functions", "--json-ui", gb + ".du"], 180)
            for m in re.finditer(r'"name":\s*"([A-Za-z_][A-Za-z0-9_]*)"', out):
                if not m.group(1).startswith(("__CPROVER", "nondet_")):
                    names.add(m.group(1))
        return sorted(names)
    except Exception as e:  # evidence nicety only
        return ["<function listing failed: %s>" % e]


def main(argv=None):
    ap = argparse.ArgumentParser()
    ap.add_argument("pid")
    ap.add_argument("--tier", default=os.environ.get("VERIF_TIER", "quick"), choices=["quick", "thorough"])
    ap.add_argument("--replay")
    ap.add_argument("--only", help="fnmatch pattern on instance names (debugging; evidence is NOT written)")
    ap.add_argument("--list", action="store_true")
    ap.add_argument("--jobs", type=int, default=0)
    a = ap.parse_args(argv)
    pid = a.pid
    seed = int(os.environ.get("VERIF_SEED", "0") or 0)
    mod = load_module(pid)
    ctx = Ctx(pid, a.tier, seed)
    t0 = time.time()

    if a.replay:
        return do_replay(ctx, mod, pid, a.replay)

    insts = mod.instances(a.tier)
    if a.list:
        for i in insts:
            print(i.name)
        return 0
    if a.only:
        insts = [i for i in insts if fnmatch.fnmatch(i.name, a.only)]
    pre = getattr(mod, "PRECHECK", None)
    if pre is not None:
        okp, msg = pre(ctx)
        log("[%s] precheck: %s" % (pid, msg))
        if not okp:
            print("BROKEN: precheck failed: %s" % msg)
            return 2
    known = load_known(pid)
    jobs = a.jobs or int(getattr(mod, "JOBS", 0)) or max(1, core.NJOBS // 2)
    log("[%s] tier=%s instances=%d jobs=%d" % (pid, a.tier, len(insts), jobs))
    # pre-build the library encoding once (shared by API instances)
    results = []
    with cf.ThreadPoolExecutor(jobs) as ex:
        futs = {ex.submit(core.run_instance, ctx, i): i for i in insts}
        for f in cf.as_completed(futs):
            r = f.result()
            results.append(r)
            log("  %-58s %-12s %6.1fs  %s" % (r.inst.name, r.verdict, r.wall,
                                               (r.note or "")[:300] if r.verdict != "pass" else
                                               "props=%d steps=%s vccs=%s solver=%.1fs" % (r.n_props, r.stats.get("steps"), r.stats.get("vccs_remaining"), r.stats.get("solver_s", 0))))
    results.sort(key=lambda r: r.inst.name)

    violations, known_hits, broken, unconfirmed = [], [], [], []
    replayed = 0
    for r in results:
        if r.verdict in ("inconclusive", "vacuous", "error"):
            broken.append((r.inst.name, r.verdict, r.note))
            continue
        if r.verdict != "fail":
            continue
        # group failed assertions by identical inputs -> replay each distinct one (cap 4)
        seen = set()
        confirmed = False
        for item in r.failed[:6]:
            if confirmed and not match_known(known, r.inst, item):
                continue
            sig = json.dumps(item["inputs"], sort_keys=True)
            h = hashlib.sha1((r.inst.name + sig).encode()).hexdigest()[:10]
            k = match_known(known, r.inst, item)
            if sig in seen and not k:
                continue
            seen.add(sig)
            rp = os.path.join(core.VERIF, "replays", pid, "%s-%s.txt" % (re.sub(r"[^A-Za-z0-9_.-]", "_", r.inst.name), h))
            core.write_replay_file(rp, r.inst, item["inputs"])
            outcome, detail = core.replay_native(ctx, r.inst, item["inputs"], san=True, replay_file=rp)
            replayed += 1
            if outcome == "not-reproduced":
                o2, d2 = core.replay_native(ctx, r.inst, item["inputs"], san=False, replay_file=rp)
                if o2.startswith("reproduced"):
                    outcome, detail = o2, d2
            item["replay"] = outcome
            item["replay_file"] = rp
            if outcome.startswith("reproduced"):
                if k:
                    known_hits.append((r.inst.name, item, k))
                else:
                    violations.append((r.inst.name, item, rp, detail))
                    confirmed = True
            elif item["kind"] == "builtin" and outcome == "not-reproduced":
                unconfirmed.append((r.inst.name, item, rp))
            else:
                broken.append((r.inst.name, "encoding-disagrees",
                               "counterexample for '%s' did not reproduce natively (%s): %s" % (item["description"], outcome, detail[-400:])))

    for name, item, k in known_hits:
        print("KNOWN-FINDING: property=%s %s [instance %s, assertion '%s']" % (pid, k["what"], name, item["description"]))
    for name, item, rp in unconfirmed:
        print("UNCONFIRMED-UB: property=%s instance=%s check='%s' replay=%s (no sanitizer confirms; not counted)" % (pid, name, item["description"], rp))
    for name, item, rp, detail in violations:
        print("VIOLATION property=%s replay=%s" % (pid, rp))
        print("  instance=%s assertion='%s' (%s)" % (name, item["description"], item["replay"]))
        for ln in detail.strip().splitlines()[-6:]:
            print("    | " + ln)
    for name, v, note in broken:
        print("BROKEN: instance=%s %s: %s" % (name, v, (note or "")[:600]))

    if not a.only:
        write_evidence(ctx, mod, pid, a.tier, seed, insts, results, violations, known_hits, broken, replayed, time.time() - t0)
    npass = sum(1 for r in results if r.verdict == "pass")
    print("[%s] %s: %d/%d instances hold, %d violation(s), %d known finding(s), %d broken/inconclusive, %.0fs"
          % (pid, a.tier, npass, len(results), len(violations), len(known_hits), len(broken), time.time() - t0))
    if violations:
        return 1
    if broken:
        return 2
    return 0


def do_replay(ctx, mod, pid, path):
    name, inputs = core.read_replay_file(path)
    allinst = {i.name: i for t in ("thorough", "quick") for i in mod.instances(t)}
    if name not in allinst:
        print("unknown instance %s in replay file" % name)
        return 2
    inst = allinst[name]
    outcome, detail = core.replay_native(ctx, inst, inputs, san=True, replay_file=os.path.abspath(path))
    print("replay of %s: %s" % (name, outcome))
    print(detail)
    if outcome.startswith("reproduced"):
        print("VIOLATION property=%s replay=%s" % (pid, path))
        return 1
    return 0 if outcome == "not-reproduced" else 2


def write_evidence(ctx, mod, pid, tier, seed, insts, results, violations, known_hits, broken, replayed, wall):
    level = getattr(mod, "LEVEL", "model_checking")
    done = [r for r in results if r.verdict in ("pass", "fail")]
    nontriv = set()
    nt = getattr(mod, "NONTRIVIAL", None)
    for r in done:
        if nt is not None:
            if nt(r):
                nontriv.add(r.inst.name)
        elif (r.witness_inputs is not None or not r.inst.witness) and (r.stats.get("vars", 0) > 0 or r.stats.get("vccs_remaining", 0) > 0):
            nontriv.add(r.inst.name)
    samples = []
    for r in sorted(done, key=lambda r: r.inst.name)[:: max(1, len(done) // 6 or 1)][:8]:
        s = {"instance": r.inst.name, "harness": r.inst.harness, "defines": r.inst.defines,
             "bounds": {"unwind": r.inst.unwind, "unwindset": list(r.inst.unwindset)},
             "verdict": r.verdict, "assertions_checked": r.n_props,
             "sat_vars": r.stats.get("vars"), "sat_clauses": r.stats.get("clauses"),
             "symex_steps": r.stats.get("steps"), "solver_s": round(r.stats.get("solver_s", 0), 2)}
        s.update(r.inst.desc)
        if r.witness_inputs:
            wi = dict(list(sorted(r.witness_inputs.items()))[:24])
            s["witness_execution_inputs"] = wi
        samples.append(s)
    fnames = []
    reps = {}
    for i in insts:
        reps.setdefault(i.harness, i)
    for h, i in list(reps.items())[:6]:
        fnames.append({"harness": h, "instance": i.name, "functions": fn_list(ctx, i)})
    queries = sum(r.n_props for r in done)
    cov = {
        "evaluations": len(done) + sum(1 for r in done if r.inst.witness),
        "distinct_nontrivial": len(nontriv),
        "rule": ("one evaluation = one CBMC run (symbolic execution of the real pixman translation units + SAT verdict over all "
                 "symbolic inputs of the instance) — property run and its reachability-witness twin are counted separately; "
                 "an instance is non-trivial iff its witness twin shows the end of the harness reachable and the sliced formula "
                 "has >0 SAT variables / VCCs left after simplification (unless the property module states its own rule below); "
                 "distinct = distinct instance key (harness x -D set). " + getattr(mod, "RULE", "")),
        "samples": samples or [{"note": "no instance finished"}],
        "instances_total": len(insts),
        "instances_hold": sum(1 for r in results if r.verdict == "pass"),
        "instances_inconclusive": [{"instance": n, "why": v, "note": (note or "")[:300]} for n, v, note in broken],
        "assertions_discharged": queries,
        "solver": sorted({r.inst.solver for r in done}),
        "solver_time_s": round(sum(r.stats.get("solver_s", 0) for r in done), 1),
        "symex_time_s": round(sum(r.stats.get("symex_s", 0) for r in done), 1),
        "sat_vars_total": sum(r.stats.get("vars", 0) for r in done),
        "functions_encoded": fnames,
        "bounds": getattr(mod, "BOUNDS", {}),
        "outside_claim": getattr(mod, "OUTSIDE", []),
        "counterexamples_replayed_natively": replayed,
        "known_findings_seen": [{"instance": n, "assertion": it["description"], "what": k["what"]} for n, it, k in known_hits],
        "exhaustive": False,
    }
    if level == "translation_validation":
        cov["programs"] = len(nontriv)
        cov["disagreements_checked"] = replayed
    ev = {
        "property_id": pid, "tier": tier, "seed": seed, "level": level, "coverage": cov,
        "assumptions": list(getattr(mod, "ASSUMPTIONS", [])) + [
            "CBMC 6.11 bit-precise semantics of C (incl. IEEE-754 floats), SAT back ends kissat/cadical",
            "getenv stub returns NULL unless the harness sets PIXMAN_DISABLE; stdio output is a no-op",
            "allocation never fails unless the instance is a C15 fault instance (--malloc-may-fail)",
            "verification build config.h: x86-64 Linux, no constructor attribute (lazy get_implementation), guard " + core.GUARD,
        ],
        "wall_s": round(wall, 1),
        "violations": len(violations),
    }
    os.makedirs(os.path.join(core.VERIF, "evidence"), exist_ok=True)
    with open(os.path.join(core.VERIF, "evidence", pid + ".json"), "w") as f:
        json.dump(ev, f, indent=1, sort_keys=True, default=str)


if __name__ == "__main__":
    sys.exit(main())
