"""Setup / self-test: checks that the tools this machinery needs are present (offline)."""
import shutil, subprocess, sys
need = ["goto-cc", "cbmc", "goto-instrument", "kissat", "gcc", "prlimit"]
missing = [t for t in need if not shutil.which(t)]
if missing:
    print("missing tools:", missing); sys.exit(1)
v = subprocess.run(["cbmc", "--version"], capture_output=True, text=True).stdout.strip()
print("cbmc", v, "- tools ok")
